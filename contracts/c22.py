"""C22 — AsyncMemoryBank reads current contents.

Identity abstraction onto the backing memory rows M. read[i](addr) returns M[addr] (the contents before this
cycle's writes: a write becomes visible in the next cycle); M' = masked write of every running write port.
By induction on the history, read returns what the latest completed write to that address stored."""

import z3
from transactron.lib.storage import AsyncMemoryBank

from engine.th import TH
from spec.seq import N

PROPERTY = "C22"
HISTORY_LEMMAS = ['memory_history']  # lemmas/History.lean: one-cycle contracts => history-level statement (Lean 4)
LEVEL = "proof"
ASSUMPTIONS = [
    "caller obligation: no two write ports address the same row in one cycle; addresses below depth",
    "(read ports, write ports, granularity, depth) swept as listed; unbounded in inputs and history length",
]


def configs(tier):
    out = []
    for gran in (None, 1, 2):
        for rp, wp in [(1, 1), (2, 1), (1, 2), (2, 2)]:
            for depth in ((3,) if tier == "quick" else (1, 2, 3, 4, 5)):
                out.append({"granularity": gran, "read_ports": rp, "write_ports": wp, "depth": depth, "width": 4 if gran == 2 else 2})
    return out


def run(cfg, ctx):
    gran, R, Wp, DEPTH, W = (cfg[k] for k in ("granularity", "read_ports", "write_ports", "depth", "width"))
    dut = AsyncMemoryBank(shape=W, depth=DEPTH, granularity=gran, read_ports=R, write_ports=Wp)
    prov = {f"rd{i}": dut.read[i] for i in range(R)}
    prov.update({f"wr{j}": dut.write[j] for j in range(Wp)})
    th = TH(dut, prov, capture=(AsyncMemoryBank,))
    hw = ctx.use(th.hw)
    ts = hw.ts
    loc = th.locals_of(dut)
    midx = ts.memory_of(loc["read_port"][0].data)
    rows, rows_n = ts.mem_rows(midx), ts.mem_next_rows[midx]
    m = th.m
    nat = lambda t: N(t) if t is not None else N(0)

    def rd(rws, a):
        r = z3.BitVecVal(0, W)
        for i in reversed(range(DEPTH)):
            r = z3.If(a == i, rws[i], r)
        return r

    def expand(mask):
        if gran is None:
            return z3.BitVecVal((1 << W) - 1, W)
        return z3.Concat(*reversed([z3.Extract(i // gran, i // gran, mask) for i in range(W)]))

    wrs = [(m[f"wr{j}"].run, nat(m[f"wr{j}"].arg("addr")), m[f"wr{j}"].arg("data"), expand(m[f"wr{j}"].arg("mask")) if gran else expand(None)) for j in range(Wp)]
    A = [z3.Implies(run, z3.ULT(a, N(DEPTH))) for run, a, _, _ in wrs]
    for j in range(Wp):
        for k in range(j):
            A.append(z3.Not(z3.And(wrs[j][0], wrs[k][0], wrs[j][1] == wrs[k][1])))
    for i in range(R):
        A.append(z3.Implies(m[f"rd{i}"].run, z3.ULT(nat(m[f"rd{i}"].arg("addr")), N(DEPTH))))
    ideal_n = []
    for r in range(DEPTH):
        v = rows[r]
        for run, a, d, em in wrs:
            v = z3.If(z3.And(run, a == r), (v & ~em) | (d & em), v)
        ideal_n.append(v)
    ctx.prove("mem.step", z3.And(*[rows_n[r] == ideal_n[r] for r in range(DEPTH)]), assume=A, hw=hw)
    for i in range(R):
        io = m[f"rd{i}"]
        ctx.prove(f"rd{i}.ready", z3.Implies(io.en, io.done), assume=A, hw=hw)
        ctx.prove(f"rd{i}.result_is_current_contents", z3.Implies(io.run, io.res("data") == rd(rows, nat(io.arg("addr")))), assume=A, hw=hw)
    for j in range(Wp):
        io = m[f"wr{j}"]
        ctx.prove(f"wr{j}.ready", z3.Implies(io.en, io.done), assume=A, hw=hw)
    ctx.cover("read+write_same_row", z3.And(*A, m["rd0"].run, wrs[0][0], nat(m["rd0"].arg("addr")) == wrs[0][1]), hw=hw)


def _patch():
    import transactron.lib.storage as S
    import inspect, textwrap

    src = textwrap.dedent(inspect.getsource(S.AsyncMemoryBank.elaborate))
    old = "m.d.comb += write_port[i].en.eq(arg.mask)"
    assert old in src
    src = src.replace(old, "m.d.comb += write_port[i].en.eq(arg.mask | (arg.mask << 1))")
    ns = dict(S.__dict__)
    exec(src, ns)
    S.AsyncMemoryBank.elaborate = ns["elaborate"]


CANARIES = [{"name": "mask_smeared", "cfg": {"granularity": 1, "read_ports": 1, "write_ports": 1, "depth": 3, "width": 2}, "patch": _patch, "expect": r"mem\.step"}]
