"""C05 — call arguments and results are routed to the right party.

Per design: an exclusive method's input equals the argument of its active call; a nonexclusive method with
a combiner sees the combiner of exactly the active arguments (bitwise OR / number of active calls); every
call site's returned value equals the defining body's output, also through provide()/Methods.provide."""

from contracts import corelib

PROPERTY = "C05"
LEVEL = "proof"
ASSUMPTIONS = corelib.CORE_ASSUMPTIONS
TECHNIQUE = "contracts on the elaborated netlist of generated designs (real manager in the loop), discharged by z3 for all inputs; oracle = spec-level design semantics"


def configs(tier):
    return corelib.design_configs(tier, schedulers=("eager",))


def run(cfg, ctx):
    corelib.run_core(PROPERTY, cfg, ctx)


def _patch_runs():
    import transactron.core.manager as MG
    from collections import defaultdict

    def bad(m, method_map):
        args = defaultdict(list)
        runs = defaultdict(list)
        for source in method_map.methods_and_transactions:
            for method, calls in source.method_calls.items():
                for _, arg, enable in calls:
                    args[method._body].append(arg)
                    runs[method._body].append(source.run)  # enable dropped
        return (args, runs)

    MG.TransactionManager._method_calls = staticmethod(bad)


CANARIES = [{"name": "argument_mux_ignores_enable", "cfg": {"design": "if_else_same_method", "scheduler": "eager"}, "patch": _patch_runs, "expect": r"input_is_argument"}]
