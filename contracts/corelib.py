"""Shared obligation generators for the transaction-core properties C01–C08 (DESIGN.md sections 5, 6)."""

import random
import zlib

import z3

from designs import family
from designs.build import Built, ev, VALIDATE_BAD
from designs.oracle import Oracle
from spec.seq import at_most_one, N, popcount
from transactron import Methods

CORE_ASSUMPTIONS = [
    "programs are bounded: the curated design shapes of designs/family.py plus seeded random DesignSpecs (<= 3 top-level transactions, <= 3 methods, control nesting <= 2); per design the obligations hold for ALL input valuations and ALL register valuations (registers are left unconstrained)",
    "the spec-level semantics of a design (call-site conditions, static call tree, SpecConf by SAT over independent free conditions) is the oracle written from the property text in designs/oracle.py; it never reads MethodMap, CtrlPath, cgr or porder",
    "every ready / condition / switch selector / enable_call / argument / method result is an independent free input port of the netlist",
]


def design_configs(tier, schedulers=("eager",), with_cond=False, n_random=None, relations=True):
    cfgs = []
    for name in family.curated():
        for s in schedulers:
            if s == "rr" and name in EAGER_ONLY:
                continue  # a run-dependent ready inside one conflict component is only legal under the default scheduler
            cfgs.append({"design": name, "scheduler": s})
    if with_cond:
        for name in family.cond_designs():
            for s in schedulers:
                cfgs.append({"design": name, "scheduler": s})
    if n_random is None:
        n_random = 60 if tier == "quick" else 600
    import os

    base = 1000 if tier == "quick" else 5000 + 100000 * int(os.environ.get("VERIF_SEED", "0"))
    for i in range(n_random):
        for s in schedulers:
            # the round-robin scheduler is only specified for components without ready dependencies: no nested bodies
            cfgs.append({"design": f"random:{base + i}", "scheduler": s, "relations": relations, "nested": s != "rr"})
    return cfgs


def construct_only(spec):
    """Run the user-level construction of a design (no manager, no netlist) to get its bodies and call sites."""
    from transactron.utils.dependencies import DependencyContext, DependencyManager
    from designs.build import DesignTop
    from designs.oracle import Unbuilt

    d = DesignTop(spec)
    with DependencyContext(DependencyManager()):
        d.elaborate(None)
    return Oracle(Unbuilt(d, spec))


def wellformed_random_spec(seed, relations=True, gen=None, nested=True):
    """Seeded random DesignSpec that the spec-level oracle classifies as well-formed (up to 24 sub-seeds are
    tried; raw random specs are ill-formed more often than not and are exercised by C11)."""
    from contracts.c11 import well_formed

    gen = gen or (lambda rng: family.random_spec(rng, allow_relations=relations, allow_nested=nested))
    for j in range(24):
        rng = random.Random(seed * 64 + j)
        spec = gen(rng)
        try:
            o = construct_only(spec)
            if not well_formed(o) and not _same_transaction_relation(o):
                return spec
        except RecursionError:
            continue
    return None


def _same_transaction_relation(o):
    """add_conflict whose endpoints are reached from one transaction: known finding (C02/C11), kept out of the
    other properties' random designs so that it is reported in one place only"""
    for rel in o.b.spec.get("relations", []):
        if rel[0] == "conflict":
            a = rel[1] if rel[1] in o.bodies else o.d.resolve(rel[1])
            b = rel[2] if rel[2] in o.bodies else o.d.resolve(rel[2])
            if set(o.transactions_for(a)) & set(o.transactions_for(b)):
                return True
    return False


def _one_transaction_runs_both(o, t, a, b):
    """can transaction t, running alone, have body a and body b running in the same cycle (spec-level semantics)?"""
    import z3 as _z3

    def paths_to(x):
        if x == t:
            return [()]
        return [p for p in o.call_paths(t) if p[-1].target == x]

    for pa in paths_to(a):
        for pb in paths_to(b):
            if o._sat(_z3.And(*[ev(s_.cond, o.hw) for s_ in pa + pb])) if (pa + pb) else True:
                return True
    return False


def spec_of(cfg):
    name = cfg["design"]
    if name.startswith("random:"):
        spec = wellformed_random_spec(int(name.split(":")[1]), cfg.get("relations", True), nested=cfg.get("nested", True))
        if spec is None:
            raise Skip("no well-formed design found for this seed")
    else:
        spec = {**family.curated(), **family.cond_designs()}[name]
    return family.with_scheduler(spec, cfg.get("scheduler", "eager"))


EAGER_ONLY = {"schedule_before_conflicting", "before_chain_reenters_component_head_more_conflicts", "before_chain_reenters_component_tail_defined_first"}  # (ready-dependent relations inside one component are excluded for rr by construction)


class Skip(Exception):
    pass


def build(cfg, ctx, need_wellformed=True):
    """Elaborate the design with the real manager. Ill-formed random designs (rejected by the library) are
    skipped here; C11 checks that rejection coincides with the oracle's WellFormed."""
    spec = spec_of(cfg)
    b = Built(spec)
    o = Oracle(b)
    ctx.use(b.hw, xval_cycles=8 if ctx.tier == "quick" else 40)
    return b, o


def relobj_run(b, name):
    d = b.d
    if name in d.bodies and d.bodies[name].kind == "T":
        return b.hw.b(d.bodies[name].obj.run)
    mo = d.methods[name]
    mo = mo[0] if isinstance(mo, Methods) else mo
    return b.hw.b(mo.run)


class _NoCover:
    """Random designs may legitimately make a cover unsatisfiable (e.g. a transaction that is always
    pre-empted), so vacuity covers are generated for the curated designs only."""

    def __init__(self, ctx, on):
        self.ctx, self.on = ctx, on

    def cover(self, *a, **kw):
        if self.on:
            return self.ctx.cover(*a, **kw)

    def __getattr__(self, k):
        return getattr(self.ctx, k)


def obligations(pid, ctx, b, o, curated=True):
    ctx = _NoCover(ctx, curated)
    hw = b.hw
    d = b.d
    P = lambda name, post, **kw: ctx.prove(name, post, hw=hw, **kw)
    top_trans = o.transactions

    if pid == "C01":
        for mname, sites in o.sites_by_target.items():
            if o.exclusive(mname) and len(sites) >= 2:
                P(f"{mname}.at_most_one_active_call", at_most_one([b.active(s) for s in sites]))
        import itertools

        for t1, t2 in itertools.combinations(top_trans, 2):
            if o.method_conflict(t1, t2):
                P(f"{t1}|{t2}.sharing_exclusive_method_never_run_together", z3.Not(z3.And(b.run(t1), b.run(t2))))
        ctx.cover("some_call_active", z3.Or(*[b.active(s) for s in d.sites]) if d.sites else z3.BoolVal(True), hw=hw)

    elif pid == "C02":
        n = 0
        for rel in b.spec.get("relations", []):
            if rel[0] == "conflict":
                a = rel[1] if rel[1] in d.bodies else d.resolve(rel[1])
                bb = rel[2] if rel[2] in d.bodies else d.resolve(rel[2])
                ta, tb = o.transactions_for(a), o.transactions_for(bb)
                shared = sorted(set(ta) & set(tb))
                # (i) callers of the two endpoints that are different transactions never run together
                for x in ta:
                    for y in tb:
                        if x != y:
                            P(f"conflict({rel[1]},{rel[2]},{rel[3]}).callers_{x}_{y}_never_both_run", z3.Not(z3.And(b.run(x), b.run(y))))
                # (ii) the related objects themselves never both run.  The known finding (one transaction that can itself
                # activate both ends) is tagged only when such a transaction exists: a shared caller whose calls of the two
                # ends sit in different alternatives of one control structure can never run both by itself.
                tag = "[shared_caller]" if any(_one_transaction_runs_both(o, t, a, bb) for t in shared) else ""
                P(f"conflict({rel[1]},{rel[2]},{rel[3]}).never_both_run{tag}", z3.Not(z3.And(relobj_run(b, rel[1]), relobj_run(b, rel[2]))))
                n += 1
        if n == 0:
            raise Skip("no add_conflict in this design")

    elif pid == "C03":
        for t in top_trans:
            bi = d.bodies[t]
            P(f"{t}.runs_only_when_enabled", z3.Implies(b.run(t), o.enabled(t)))
            if bi.branch_of is None:
                body = bi.obj._body
                P(f"{t}.transaction_signals_alias_body", z3.And(hw.sig(bi.obj.run) == hw.sig(body.run), hw.sig(bi.obj.ready) == hw.sig(body.ready),
                                                              hw.sig(bi.obj.runnable) == hw.sig(body.runnable)))
        ctx.cover("some_transaction_can_run", z3.Or(*[b.run(t) for t in top_trans]), hw=hw)

    elif pid == "C04":
        for mname in o.methods:
            sites = o.sites_by_target.get(mname, [])
            any_active = z3.Or(*[b.active(s) for s in sites]) if sites else z3.BoolVal(False)
            P(f"{mname}.runs_iff_some_call_active", b.run(mname) == any_active)
        for name, bi in d.bodies.items():
            if bi.parent is not None:
                P(f"{name}.nested_runs_only_with_parent", z3.Implies(b.run(name), b.run(bi.parent.name)))
        for aname in d.aliases:
            mo = d.methods[aname]
            mo = mo[0] if isinstance(mo, Methods) else mo
            tgt = d.bodies[d.resolve(aname)].obj
            P(f"{aname}.alias_run_ready_equal_body", z3.And(hw.sig(mo.run) == hw.sig(tgt._body.run), hw.sig(mo.ready) == hw.sig(tgt._body.ready)))

    elif pid == "C05":
        for mname in o.methods:
            ms = o.spec(mname)
            sites = o.sites_by_target.get(mname, [])
            body = d.bodies[mname].obj._body
            if ms.get("iw", 0) and sites:
                din = hw.sig(body.data_in)
                acts = [b.active(s) for s in sites]
                args = [hw.sig(s.argp) for s in sites]
                if not ms.get("nonexclusive"):
                    for s, a, x in zip(sites, acts, args):
                        P(f"{mname}.input_is_argument_of_active_call[{s.sid}]", z3.Implies(a, din == x))
                elif ms.get("combiner") == "or":
                    exp = z3.BitVecVal(0, din.size())
                    for a, x in zip(acts, args):
                        exp = exp | z3.If(a, x, z3.BitVecVal(0, din.size()))
                    P(f"{mname}.input_is_or_of_active_arguments", din == exp)
                elif ms.get("combiner") == "count":
                    cnt = N(0)
                    for a in acts:
                        cnt = cnt + N(a)
                    P(f"{mname}.input_is_number_of_active_calls", N(din) == z3.URem(cnt, N(1 << din.size())))
                if ms.get("validate"):
                    pass  # the validator seeing its own call's argument is part of C03's enabledness
            if ms.get("ow", 0):
                dout = hw.sig(body.data_out)
                for s in sites:
                    P(f"{mname}.caller_sees_method_output[{s.sid}]", hw.sig(s.retp) == dout)
                # the output is what the body computes: free result (+ own input when 'inc')
                bi = d.bodies[mname]
                exp = hw.sig(bi.out_in)
                if ms.get("out") == "inc" and ms.get("iw", 0):
                    x = hw.sig(body.data_in)
                    w = exp.size()
                    xx = z3.ZeroExt(w - x.size(), x) if x.size() < w else z3.Extract(w - 1, 0, x)
                    exp = exp + xx
                P(f"{mname}.output_is_body_result", dout == exp)

    elif pid == "C06":
        if not d.wits:
            raise Skip("no witness statements")
        for w in d.wits:
            conds = ev(w.cond, hw)
            outer = ev(w.body.outer_cond, hw)
            run = b.run(w.body.name)
            tag = f"{w.body.name}.wit{w.wid}.{w.dom}"
            if w.dom == "comb":
                P(f"{tag}.set_iff_run_and_conditions", hw.b(w.sig) == z3.And(run, conds, outer))
            elif w.dom == "av_comb":
                # enclosing *ordinary* conditions only, whatever any run signal is
                P(f"{tag}.set_iff_ordinary_conditions", hw.b(w.sig) == z3.And(conds, all_ordinary_outer(w.body, hw)))
            elif w.dom == "top_comb":
                P(f"{tag}.always_set", hw.b(w.sig))
            else:
                cur, nxt = hw.sig(w.sig), hw.nxt(w.sig)
                P(f"{tag}.register_updates_iff_run_and_conditions", nxt == z3.If(z3.And(run, conds, outer), cur + 1, cur))

    elif pid == "C07":
        conf = o.spec_conf()
        for t in top_trans:
            blockers = [b.run(u) for u in sorted(conf[t])]
            P(f"{t}.enabled_but_not_run_implies_conflicting_runs", z3.Implies(z3.And(o.enabled(t), z3.Not(b.run(t))), z3.Or(*blockers) if blockers else z3.BoolVal(False)))
            ctx.cover(f"{t}.enabled", o.enabled(t), hw=hw)

    elif pid == "C08":
        conf = o.spec_conf()
        _, prio = o.explicit_conflicts()
        if not prio:
            raise Skip("no prioritised conflict")
        for hi, lo in sorted(prio):
            if (lo, hi) in prio:
                continue  # contradictory priorities: rejected at elaboration (C11)
            others = [b.run(u) for u in sorted(conf[hi]) if u != lo]
            P(f"priority({hi}>{lo}).low_runs_only_if_high_blocked_by_other", z3.Implies(z3.And(o.enabled(hi), o.enabled(lo), b.run(lo)), z3.Or(*others) if others else z3.BoolVal(False)))
            ctx.cover(f"priority({hi}>{lo}).both_enabled", z3.And(o.enabled(hi), o.enabled(lo)), hw=hw)
    else:
        raise ValueError(pid)


def all_ordinary_outer(bi, hw):
    """ordinary conditions around the definition of body bi and of all its enclosing bodies"""
    return ev(bi.outer_cond, hw)


def run_core(pid, cfg, ctx, eager_only=False):
    try:
        b, o = build(cfg, ctx)
    except Skip as s:
        ctx.notes.append(f"skipped {cfg['design']}: {s}")
        ctx.skipped = True
        return
    if pid in ("C01", "C02", "C04", "C07", "C08"):
        from contracts.mgrfn import manager_contracts

        manager_contracts(pid, ctx, b, o)
    try:
        obligations(pid, ctx, b, o, curated=not cfg["design"].startswith("random:"))
    except Skip as s:
        ctx.notes.append(f"skipped {cfg['design']}: {s}")
        ctx.skipped = True
