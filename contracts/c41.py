"""C41 — data helpers.

E-PY: the real functions of transactron/utils/data_repr.py are executed on symbolic integers (engine/pysym.py); per
feasible path a verification condition is discharged by z3, and every arithmetic step's no-overflow side condition is
discharged too, so the 40-bit model coincides with Python's unbounded integers on the stated input ranges:
  int_to_signed / signed_to_int are inverse on width-bounded values; align_to_power_of_two(n, p) is the least multiple
  of 2^p >= n, align_down_... the greatest <= n; bits_from_int and neg against their arithmetic definitions.
E-HW: transpose(v)[i][o] == v[o][i] for all v per two-level layout; transpose_layout is an involution; the Const
variant agrees with the View variant.  E-RT (bounded): make_hashable preserves equality."""

import itertools

import z3
from amaranth import Shape, Signal, Value, signed
from amaranth.lib import data

from transactron.utils import data_repr as DR
from transactron.utils.amaranth_ext import data as AD
from engine import pysym
from engine.pysym import sint, PW
from engine.comb import Comb

PROPERTY = "C41"
LEVEL = "proof"
ENGINE = "E-PY + E-HW (+ E-RT for make_hashable)"
TECHNIQUE = "real Python functions run on symbolic proxies, one VC per path (z3); transpose on the elaborated netlist; make_hashable by exhaustive run-time contract (bounded)"
ASSUMPTIONS = [
    "Python integers are modelled as 40-bit signed bit-vectors (specifications use signed bit-vector modulo / exact division, i.e. mathematical mod and floor division on values that provably do not overflow); every arithmetic operation's no-overflow side condition is discharged as an obligation, inputs range over |n| < 2^24 (symbolic), widths/powers 1..16 (concrete, swept)",
    "make_hashable: bounded stand-in (all nested dict/list/tuple/int values of size <= 4 over a small alphabet), not a proof",
    "transpose: two-level layouts from the listed grammar (struct/array x struct/array, 1-3 keys, field widths 1-3)",
]
BOUND = 1 << 24


def configs(tier):
    out = []
    ws = range(1, 9) if tier == "quick" else range(1, 17)
    for w in ws:
        out.append({"fn": "signed_roundtrip", "w": w})
        out.append({"fn": "neg", "w": w})
    for p in (range(0, 9) if tier == "quick" else range(0, 17)):
        out.append({"fn": "align", "p": p})
    for lower, length in ([(0, 1), (3, 4), (5, 1), (2, 8)] if tier == "quick" else [(lo, ln) for lo in (0, 1, 3, 7, 12) for ln in (1, 2, 5, 8, 11)]):
        out.append({"fn": "bits_from_int", "lower": lower, "length": length})
    for i in range(len(LAYOUTS)):
        out.append({"fn": "transpose", "layout": i})
    out.append({"fn": "make_hashable"})
    return out


def run_paths(ctx, name, fn, pre, post, native):
    """fn(): runs the real function on proxies, returns SInt; post(result_term) -> z3 Bool."""
    paths = pysym.explore(fn)
    pcs = []
    for k, p in enumerate(paths):
        pc = z3.And(*p["pc"]) if p["pc"] else z3.BoolVal(True)
        pcs.append(pc)
        kind, res = p["result"]
        if kind != "ok":
            ok = ctx.prove(f"{name}.path{k}.does_not_raise", z3.BoolVal(False), pre=[pre, pc], note=repr(res))
            continue
        for j, (spc, cond) in enumerate(p["side"]):
            ctx.prove(f"{name}.path{k}.no_overflow[{j}]", cond, pre=[pre, *spc])
        r = res.e if isinstance(res, pysym.SInt) else z3.BitVecVal(int(res), PW)
        ok = ctx.prove(f"{name}.path{k}.post", post(r), pre=[pre, pc])
        if not ok:
            rec = ctx.records[-1]
            s = z3.Solver()
            s.add(pre, pc, z3.Not(post(r)))
            if s.check() == z3.sat:
                rec["native_replay"] = native(s.model())
    ctx.prove(f"{name}.paths_cover_precondition", z3.Or(*pcs), pre=[pre])
    ctx.functions.add((name.split("(")[0], "transactron/utils/data_repr.py"))


def K(v):
    return z3.BitVecVal(v, PW)


def smod(x, m):
    """mathematical x mod m for m > 0 (bvsmod: the result takes the sign of the divisor)"""
    return x % K(m)


def fdiv(x, m):
    """floor(x / m) for m > 0, through an exact signed division"""
    return (x - smod(x, m)) / K(m)


def inr(x, lo, hi):
    return z3.And(x.e >= lo, x.e < hi)


LAYOUTS = [
    data.StructLayout({"a": data.StructLayout({"x": 1, "y": 2}), "b": data.StructLayout({"x": 1, "y": 2})}),
    data.StructLayout({"a": data.ArrayLayout(2, 3), "b": data.ArrayLayout(2, 3)}),
    data.ArrayLayout(data.StructLayout({"p": 1, "q": 3, "r": 2}), 2),
    data.ArrayLayout(data.ArrayLayout(2, 2), 3),
    data.StructLayout({"only": data.StructLayout({"x": 3})}),
    data.StructLayout({"a": data.StructLayout({"x": 1, "y": 2}), "b": data.StructLayout({"x": 2, "y": 1}), "c": data.StructLayout({"x": 3, "y": 3})}),
    # signed leaves (a transposition that keeps only the width of a leaf changes how negative values read back)
    data.ArrayLayout(data.ArrayLayout(signed(2), 2), 2),
    data.StructLayout({"a": data.StructLayout({"x": signed(2), "y": 1}), "b": data.StructLayout({"x": signed(2), "y": 1})}),
]


def deep_shape_eq(a, b):
    """structural equality of two shapes down to the leaves, including signedness (Amaranth's Layout.__eq__ compares
    nested fields by bit-level shape only)"""
    if isinstance(a, data.StructLayout) and isinstance(b, data.StructLayout):
        ka, kb = list(a.members), list(b.members)
        return ka == kb and all(deep_shape_eq(a.members[k], b.members[k]) for k in ka)
    if isinstance(a, data.ArrayLayout) and isinstance(b, data.ArrayLayout):
        return a.length == b.length and deep_shape_eq(a.elem_shape, b.elem_shape)
    if isinstance(a, data.Layout) or isinstance(b, data.Layout):
        return False
    sa, sb = Shape.cast(a), Shape.cast(b)
    return sa.width == sb.width and sa.signed == sb.signed


def run(cfg, ctx):
    fn = cfg["fn"]
    if fn == "signed_roundtrip":
        w = cfg["w"]
        x = sint("x")
        pre_u = inr(x, 0, 1 << w)
        pre_s = inr(x, -(1 << (w - 1)), 1 << (w - 1))
        xi = x.e
        # definitions
        run_paths(ctx, f"int_to_signed(x,{w})", lambda: DR.int_to_signed(x, w), z3.And(x.e >= -BOUND, x.e < BOUND),
                  lambda r: r == smod(xi, 1 << w), lambda m: {"x": m[x.e].as_signed_long(), "got": DR.int_to_signed(m[x.e].as_signed_long(), w)})
        run_paths(ctx, f"signed_to_int(x,{w})", lambda: DR.signed_to_int(x, w), pre_u,
                  lambda r: r == z3.If(xi >= K(1 << (w - 1)), xi - K(1 << w), xi), lambda m: {"x": m[x.e].as_signed_long(), "got": DR.signed_to_int(m[x.e].as_signed_long(), w)})
        # inverse in both directions on width-bounded values
        run_paths(ctx, f"int_to_signed(signed_to_int(x,{w}),{w})", lambda: DR.int_to_signed(DR.signed_to_int(x, w), w), pre_u,
                  lambda r: r == x.e, lambda m: {"x": m[x.e].as_signed_long()})
        run_paths(ctx, f"signed_to_int(int_to_signed(y,{w}),{w})", lambda: DR.signed_to_int(DR.int_to_signed(x, w), w), pre_s,
                  lambda r: r == x.e, lambda m: {"y": m[x.e].as_signed_long()})
        ctx.cover("negative_in_range", z3.And(pre_s, x.e < 0))
    elif fn == "neg":
        w = cfg["w"]
        x = sint("x")
        xi = x.e
        run_paths(ctx, f"neg(x,{w})", lambda: DR.neg(x, w), inr(x, 0, 1 << w), lambda r: r == smod(-xi, 1 << w),
                  lambda m: {"x": m[x.e].as_signed_long(), "got": DR.neg(m[x.e].as_signed_long(), w)})
    elif fn == "align":
        p = cfg["p"]
        n = sint("n")
        ni = n.e
        pre = inr(n, 0, BOUND)
        up = lambda r: z3.And(smod(r, 1 << p) == 0, r >= ni, r - ni < K(1 << p))
        down = lambda r: z3.And(smod(r, 1 << p) == 0, r <= ni, ni - r < K(1 << p))
        run_paths(ctx, f"align_to_power_of_two(n,{p})", lambda: DR.align_to_power_of_two(n, p), pre, up,
                  lambda m: {"n": m[n.e].as_signed_long(), "got": DR.align_to_power_of_two(m[n.e].as_signed_long(), p)})
        run_paths(ctx, f"align_down_to_power_of_two(n,{p})", lambda: DR.align_down_to_power_of_two(n, p), pre, down,
                  lambda m: {"n": m[n.e].as_signed_long(), "got": DR.align_down_to_power_of_two(m[n.e].as_signed_long(), p)})
    elif fn == "bits_from_int":
        lo, ln = cfg["lower"], cfg["length"]
        n = sint("n")
        ni = n.e
        run_paths(ctx, f"bits_from_int(n,{lo},{ln})", lambda: DR.bits_from_int(n, lo, ln), inr(n, -BOUND, BOUND),
                  lambda r: r == smod(fdiv(ni, 1 << lo), 1 << ln), lambda m: {"n": m[n.e].as_signed_long(), "got": DR.bits_from_int(m[n.e].as_signed_long(), lo, ln)})
    elif fn == "transpose":
        L = LAYOUTS[cfg["layout"]]
        v = Signal(L, name="v")
        T = AD.transpose_layout(L)
        tv = {}

        def body(m):
            tv["t"] = AD.transpose(v)
            return [Value.cast(tv["t"])]

        c = Comb([Value.cast(v)], body)
        hw = ctx.use(c.hw)
        o_keys, i_keys = AD.layout_keys(L), AD.layout_keys(L[AD.layout_keys(L)[0]].shape)
        vin, vout = c.ins[0], c.outs[0]

        def sl(term, lay, k1, k2):
            f1 = lay[k1]
            f2 = f1.shape[k2]
            off = f1.offset + f2.offset
            return z3.Extract(off + f2.width - 1, off, term)

        fs = [sl(vout, T, ik, ok) == sl(vin, L, ok, ik) for ok in o_keys for ik in i_keys]
        ctx.prove("transpose.swaps_levels", z3.And(*fs), hw=hw)
        ctx.prove("transpose.result_layout", z3.BoolVal(tv["t"].shape() == T and T.size == L.size))
        ctx.prove("transpose_layout.involution", z3.BoolVal(AD.transpose_layout(AD.transpose_layout(L)) == L))
        ctx.prove("transpose_layout.involution_down_to_leaf_shapes", z3.BoolVal(deep_shape_eq(AD.transpose_layout(AD.transpose_layout(L)), L)))
        ctx.prove("transpose_layout.leaf_shapes_preserved", z3.BoolVal(all(deep_shape_eq(T[ik].shape[ok].shape, L[ok].shape[ik].shape) for ok in o_keys for ik in i_keys)))
        # (bit-level equality of every leaf plus equal leaf shapes gives numeric equality, also for negative values)
        # Const variant agrees with the View variant on enumerated constants
        n = L.size
        vals = range(1 << n) if n <= 8 else [0, (1 << n) - 1] + [(0x9E3779B97F4A7C15 * k) & ((1 << n) - 1) for k in range(1, 200)]
        bad = []
        for x in vals:
            cst = AD.transpose(L.from_bits(x))
            exp = 0
            for ok in o_keys:
                for ik in i_keys:
                    f1 = L[ok]
                    f2 = f1.shape[ik]
                    bits = (x >> (f1.offset + f2.offset)) & ((1 << f2.width) - 1)
                    g1 = T[ik]
                    g2 = g1.shape[ok]
                    exp |= bits << (g1.offset + g2.offset)
            if cst.as_bits() != exp:
                bad.append({"const": x, "got": cst.as_bits(), "expected": exp})
        ctx.bounded_result("transpose.const_variant", len(list(vals)), len(list(vals)), bad, rule="every constant of the layout (or 200 pseudo-random ones when wider than 8 bits); all distinct",
                           samples=[{"layout": repr(L)[:80], "constants": min(len(list(vals)), 1 << n)}], exhaustive=n <= 8)
        ctx.functions.update({("transpose", "transactron/utils/amaranth_ext/data.py"), ("transpose_layout_with_keys", "transactron/utils/amaranth_ext/data.py")})
    elif fn == "make_hashable":
        atoms = [0, 1, "a"]

        def gen(size):
            if size == 1:
                yield from atoms
                return
            for a in atoms:
                yield a
            for k in range(1, size):
                for parts in itertools.product(list(gen(1)) if size - 1 == 1 else list(gen(size - 1)), repeat=1):
                    pass
            # containers with up to (size-1) elements drawn from values of size <= size-1
            subs = list(gen(size - 1)) if size > 1 else []
            small = subs[:6]
            for n_el in range(0, min(3, size)):
                for els in itertools.product(small, repeat=n_el):
                    yield list(els)
                    yield tuple(els)
                    if n_el <= 2:
                        try:
                            yield {f"k{i}": e for i, e in enumerate(els)}
                        except TypeError:
                            pass

        vals = []
        seen = set()
        for v in gen(3):
            r = repr(v)
            if r not in seen:
                seen.add(r)
                vals.append(v)
        vals = vals[:400]

        # equal values built differently: every mapping (also nested) with its keys inserted in reverse order
        def rev(v):
            if isinstance(v, dict):
                return {k: rev(v[k]) for k in reversed(list(v))}
            if isinstance(v, list):
                return [rev(x) for x in v]
            if isinstance(v, tuple):
                return tuple(rev(x) for x in v)
            return v

        for v in list(vals):
            r = rev(v)
            if repr(r) not in seen:
                seen.add(repr(r))
                vals.append(r)
        fails = []
        evals = 0
        hs = []
        for v in vals:
            h = DR.make_hashable(v)
            hash(h)
            hs.append(h)
        def shape(v):
            if isinstance(v, dict):
                return ("dict", tuple((k, shape(x)) for k, x in v.items()))
            if isinstance(v, (list, tuple)):
                return (type(v).__name__, tuple(shape(x) for x in v))
            return type(v).__name__

        for (a, ha), (b, hb) in itertools.combinations(zip(vals, hs), 2):
            evals += 1
            same_shape = shape(a) == shape(b)
            if a == b and not (ha == hb and hash(ha) == hash(hb)):
                fails.append({"a": repr(a), "b": repr(b), "why": "equal values, different hashable"})
            if same_shape and a != b and ha == hb:
                fails.append({"a": repr(a), "b": repr(b), "why": "different values of identical nested shape, equal hashable"})
        ctx.bounded_result("make_hashable.preserves_equality", evals, len(vals), fails, rule="all pairs of distinct nested int/str/list/tuple/dict values of nesting depth <= 3 (first 400 by enumeration order) plus, for every value containing a mapping with two or more keys, the equal value with the keys inserted in reverse order; distinct by repr",
                           samples=[repr(vals[5]), repr(vals[-1])], exhaustive=True)
        ctx.functions.add(("make_hashable", "transactron/utils/data_repr.py"))


def _patch_align():
    def bad(num, power):
        mask = 2**power - 1
        return (num & ~mask) + 2**power  # exact multiples are bumped to the next one

    DR.align_to_power_of_two = bad


def _patch_signed():
    DR.signed_to_int = lambda x, xlen: x | -(x & (2 ** (xlen - 1))) if xlen > 1 else x


def _patch_transpose():
    import inspect, textwrap

    src = textwrap.dedent(inspect.getsource(AD.transpose))
    old = "for i_key in i_keys for o_key in o_keys)"
    assert old in src
    src = src.replace(old, "for o_key in o_keys for i_key in i_keys)")
    ns = dict(AD.__dict__)
    exec(src, ns)
    AD.transpose = ns["transpose"]


CANARIES = [
    {"name": "align_up_bumps_exact_multiples", "cfg": {"fn": "align", "p": 3}, "patch": _patch_align, "expect": r"align_to_power_of_two.*post"},
    {"name": "signed_to_int_width_one", "cfg": {"fn": "signed_roundtrip", "w": 1}, "patch": _patch_signed, "expect": r"signed_to_int"},
    {"name": "transpose_not_transposing", "cfg": {"fn": "transpose", "layout": 0}, "patch": _patch_transpose, "expect": r"swaps_levels"},
]
