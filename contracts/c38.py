"""C38 — encoders, multiplexers and selecting networks.

The real elaboratables / functions are elaborated and `forall inputs: A => outputs = spec(inputs)` is
discharged on the netlist (combinational, complete per width / output count in the sweep)."""

import z3
from amaranth import Elaboratable, Module, Signal, Value, signed
from amaranth.lib import data

from transactron.utils.amaranth_ext import elaboratables as E
from transactron.utils.amaranth_ext import coding as K
from transactron.utils.amaranth_ext import functions as F
from engine.hw import HW
from engine.comb import Comb, I, bit

PROPERTY = "C38"
LEVEL = "proof"
ASSUMPTIONS = [
    "RingMultiPriorityEncoder: first, last < input_width (they are Signal(range(input_width)) indices); first == last denotes the empty range",
    "one_hot_mux/OneHotMux without priority are specified only for select vectors with at most one bit set (docstring: otherwise undefined)",
    "StableSelectingNetwork: outputs beyond output_cnt are not constrained by the property",
    "widths / counts swept as listed; unbounded in input values",
]


def configs(tier):
    out = []
    W = range(1, 9) if tier == "quick" else range(1, 13)
    for w in W:
        out.append({"fn": "coding", "w": w})
        for k in range(1, min(w, 4) + 1):
            if tier == "quick" and w > 5 and k > 2:
                continue
            out.append({"fn": "multi_enc", "w": w, "k": k})
            if w >= 2:
                out.append({"fn": "ring_enc", "w": w, "k": k})
    # wide / non-power-of-two sizes beyond the small sweep (each obligation < 3 s; coding at w = 33 and ring_enc at w = 17
    # are too slow to be stable and stay out, DESIGN 13.1)
    out += [{"fn": "coding", "w": 16}, {"fn": "coding", "w": 17}]
    out += [{"fn": "multi_enc", "w": 12, "k": 3}, {"fn": "multi_enc", "w": 17, "k": 2}, {"fn": "multi_enc", "w": 16, "k": 5},
            {"fn": "ring_enc", "w": 12, "k": 3}, {"fn": "ring_enc", "w": 13, "k": 2}]
    for n in (range(1, 7) if tier == "quick" else range(1, 10)):
        out.append({"fn": "selnet", "n": n, "shape": 2})
    out += [{"fn": "selnet", "n": 12, "shape": 2}] + ([{"fn": "selnet", "n": 9, "shape": 2}] if tier == "quick" else [])
    for prio in (False, True):
        out += [{"fn": "onehotmux", "n": 9, "priority": prio, "default": prio}, {"fn": "onehotmux", "n": 17, "priority": prio, "default": not prio}]
    out.append({"fn": "selnet", "n": 3, "shape": "struct"})
    for n in (range(0, 6) if tier == "quick" else range(0, 9)):
        for prio in (False, True):
            for dflt in (False, True):
                if n == 0 and not dflt:
                    continue
                out.append({"fn": "onehotmux", "n": n, "priority": prio, "default": dflt})
    seen, uniq = set(), []
    for c in out:
        k = repr(sorted(c.items()))
        if k not in seen:
            seen.add(k)
            uniq.append(c)
    return uniq


def nth_set_spec(bits_in_order):
    """bits_in_order: list of (z3 bool hit, z3 IW index). Returns (count, list over k of (exists, index))."""
    running = I(0)
    sel = []
    for hit, idx in bits_in_order:
        sel.append((hit, idx, running))
        running = running + I(hit)
    return running, sel


def run(cfg, ctx):
    fn = cfg["fn"]
    if fn == "coding":
        w = cfg["w"]
        enc, pe, dec, pd, ge, gd = K.Encoder(w), K.PriorityEncoder(w), K.Decoder(w), K.PriorityDecoder(w), K.GrayEncoder(w), K.GrayDecoder(w)
        ge2, gd2 = K.GrayEncoder(w), K.GrayDecoder(w)

        class Top(Elaboratable):
            def elaborate(self, p):
                m = Module()
                for i, s in enumerate((enc, pe, dec, pd, ge, gd, ge2, gd2)):
                    m.submodules[f"s{i}"] = s
                m.d.comb += [pe.i.eq(enc.i), pd.i.eq(dec.i), pd.n.eq(dec.n), gd.i.eq(ge.o), ge2.i.eq(gd2.o)]
                return m

        ins = [s for s in (enc.i, dec.i, dec.n, ge.i, gd2.i) if len(s)]
        outs = [enc.o, enc.n, pe.o, pe.n, dec.o, pd.o, ge.o, gd.o, ge2.o, gd2.o]
        hw = ctx.use(HW(Top(), ins, outs))
        x = hw.sig(enc.i)
        onehot = z3.And(x != 0, (x & (x - 1)) == 0)
        first = I(0)
        for i in reversed(range(w)):
            first = z3.If(bit(x, i), I(i), first)
        eo = I(hw.sig(enc.o)) if len(enc.o) else I(0)
        po = I(hw.sig(pe.o)) if len(pe.o) else I(0)
        ctx.prove("Encoder", z3.If(onehot, z3.And(hw.sig(enc.n) == 0, eo == first), z3.And(hw.sig(enc.n) == 1, eo == 0)), hw=hw)
        ctx.prove("PriorityEncoder", z3.If(x != 0, z3.And(hw.sig(pe.n) == 0, po == first), z3.And(hw.sig(pe.n) == 1, po == 0)), hw=hw)
        di = I(hw.sig(dec.i)) if len(dec.i) else I(0)
        dn = hw.sig(dec.n) == 1
        for name, d in (("Decoder", dec), ("PriorityDecoder", pd)):
            o = hw.sig(d.o)
            ctx.prove(name, z3.And(*[bit(o, j) == z3.And(z3.Not(dn), di == j) for j in range(w)]), hw=hw)
        g_in, g_out = hw.sig(ge.i), hw.sig(ge.o)
        ctx.prove("GrayEncoder.definition", g_out == (g_in ^ z3.LShR(g_in, 1)), hw=hw)
        gd_in, gd_out = hw.sig(gd2.i), hw.sig(gd2.o)
        fs = []
        for i in range(w):
            acc = z3.BoolVal(False)
            for j in range(i, w):
                acc = z3.Xor(acc, bit(gd_in, j))
            fs.append(bit(gd_out, i) == acc)
        ctx.prove("GrayDecoder.definition", z3.And(*fs), hw=hw)
        ctx.prove("Gray.decode(encode(x))=x", hw.sig(gd.o) == g_in, hw=hw)
        ctx.prove("Gray.encode(decode(g))=g", hw.sig(ge2.o) == gd_in, hw=hw)
        # adjacent values differ in exactly one bit of their code
        nxt = g_in + 1
        d = g_out ^ (nxt ^ z3.LShR(nxt, 1))
        ctx.prove("Gray.adjacent_codes_differ_in_one_bit", z3.Implies(g_in != z3.BitVecVal(-1, w), z3.And(d != 0, (d & (d - 1)) == 0)), hw=hw)
    elif fn == "multi_enc":
        w, k = cfg["w"], cfg["k"]
        enc = E.MultiPriorityEncoder(w, k)
        hw = ctx.use(HW(enc, [enc.input], [Value.cast(enc.outputs), enc.valids]))
        inp, valids = hw.sig(enc.input), hw.sig(enc.valids)
        cnt, sel = nth_set_spec([(bit(inp, b), I(b)) for b in range(w)])
        fs = []
        for j in range(k):
            o = I(hw.sig(enc.outputs[j])) if len(Value.cast(enc.outputs[j])) else I(0)
            fs.append(bit(valids, j) == z3.UGT(cnt, I(j)))
            for hit, idx, before in sel:
                fs.append(z3.Implies(z3.And(hit, before == j), o == idx))
        ctx.prove("MultiPriorityEncoder", z3.And(*fs), hw=hw)
        if k == 1:
            # functional-style constructors return the same signals
            x = Signal(w, name="x")
            c = Comb([x], lambda m: list(E.MultiPriorityEncoder.create_simple(m, w, x)) + [p for pair in E.MultiPriorityEncoder.create(m, w, x, 1, name="named") for p in pair])
            hw2 = ctx.use(c.hw)
            xx = c.ins[0]
            first = I(w)
            for i in reversed(range(w)):
                first = z3.If(bit(xx, i), I(i), first)
            for tag, (o, v) in (("create_simple", c.outs[0:2]), ("create", c.outs[2:4])):
                oi = I(o) if o is not None else I(0)
                ctx.prove(f"MultiPriorityEncoder.{tag}", z3.And((v == 1) == (xx != 0), z3.Implies(xx != 0, oi == first)), hw=hw2)
    elif fn == "ring_enc":
        w, k = cfg["w"], cfg["k"]
        enc = E.RingMultiPriorityEncoder(w, k)
        hw = ctx.use(HW(enc, [enc.input, enc.first, enc.last], [Value.cast(enc.outputs), enc.valids]))
        inp, valids = hw.sig(enc.input), hw.sig(enc.valids)
        fi, la = I(hw.sig(enc.first)), I(hw.sig(enc.last))
        length = z3.If(z3.UGE(la, fi), la - fi, la + w - fi)
        order = []
        for j in range(w):
            idx = z3.URem(fi + j, I(w))
            hit = z3.And(z3.ULT(I(j), length), z3.Or(*[z3.And(idx == b, bit(inp, b)) for b in range(w)]))
            order.append((hit, idx))
        cnt, sel = nth_set_spec(order)
        fs = []
        for j in range(k):
            o = I(hw.sig(enc.outputs[j]))
            fs.append(bit(valids, j) == z3.UGT(cnt, I(j)))
            for hit, idx, before in sel:
                fs.append(z3.Implies(z3.And(hit, before == j), o == idx))
        A = [z3.ULT(fi, I(w)), z3.ULT(la, I(w))]
        ctx.prove("RingMultiPriorityEncoder", z3.And(*fs), assume=A, hw=hw)
        ctx.cover("wrapping", z3.And(*A, z3.UGT(fi, la), bit(valids, 0)))
    elif fn == "selnet":
        n = cfg["n"]
        lay = data.StructLayout({"a": 1, "b": signed(2)})
        shape = lay if cfg["shape"] == "struct" else cfg["shape"]
        net = E.StableSelectingNetwork(n, shape)
        hw = ctx.use(HW(net, [Value.cast(net.inputs), net.valids], [Value.cast(net.outputs), net.output_cnt]))
        V = hw.sig(net.valids)
        ins = [hw.sig(net.inputs[i]) for i in range(n)]
        outs = [hw.sig(net.outputs[i]) for i in range(n)]
        before = I(0)
        fs = []
        for i in range(n):
            for k in range(n):
                fs.append(z3.Implies(z3.And(bit(V, i), before == k), outs[k] == ins[i]))
            before = before + I(bit(V, i))
        fs.append(I(hw.sig(net.output_cnt)) == before)
        ctx.prove("StableSelectingNetwork", z3.And(*fs), hw=hw)
    elif fn == "onehotmux":
        n, prio, dflt = cfg["n"], cfg["priority"], cfg["default"]
        mux = E.OneHotMux(3, n, priority=prio, has_default=dflt)
        ins = [s for s in ([Value.cast(mux.inputs), mux.select] + ([mux.default_input] if dflt else [])) if len(Value.cast(s))]
        hw = ctx.use(HW(mux, ins, [mux.output]))
        sel = hw.sig(mux.select) if n else None
        data_in = [hw.sig(mux.inputs[i]) for i in range(n)]
        out = hw.sig(mux.output)
        none = (sel == 0) if n else z3.BoolVal(True)
        if dflt:
            ctx.prove("OneHotMux.default_when_none", z3.Implies(none, out == hw.sig(mux.default_input)), hw=hw)
        elif n > 1:
            ctx.prove("OneHotMux.zero_when_none", z3.Implies(none, out == 0), hw=hw)
        for i in range(n):
            only_i = sel == (1 << i)
            ctx.prove(f"OneHotMux.select[{i}]", z3.Implies(only_i, out == data_in[i]), hw=hw)
            if prio:
                lowest_i = z3.And(bit(sel, i), *[z3.Not(bit(sel, j)) for j in range(i)])
                ctx.prove(f"OneHotMux.lowest[{i}]", z3.Implies(lowest_i, out == data_in[i]), hw=hw)
        # the function form and the functional constructor
        if n >= 1:
            sels = [Signal(2, name=f"s{i}") for i in range(n)]  # multi-bit selects: any() semantics
            vals = [Signal(signed(3), name=f"v{i}") for i in range(n)]
            dv = Signal(signed(3), name="dv")
            c = Comb(sels + vals + ([dv] if dflt else []), lambda m: [
                F.one_hot_mux(list(zip(sels, vals)), default=dv if dflt else None, priority=prio),
                E.OneHotMux.create(m, list(zip(sels, vals)), default_input=dv if dflt else None, priority=prio),
            ])
            hw2 = ctx.use(c.hw)
            ss = [t != 0 for t in c.ins[:n]]
            vv = c.ins[n : 2 * n]
            for tag, o in (("one_hot_mux", c.outs[0]), ("OneHotMux.create", c.outs[1])):
                if dflt:
                    ctx.prove(f"{tag}.default_when_none", z3.Implies(z3.Not(z3.Or(*ss)), o == c.ins[2 * n]), hw=hw2)
                for i in range(n):
                    others = [z3.Not(ss[j]) for j in range(n) if j != i] if not prio else [z3.Not(ss[j]) for j in range(i)]
                    ctx.prove(f"{tag}.select[{i}]", z3.Implies(z3.And(ss[i], *others), o == vv[i]), hw=hw2)
    else:
        raise ValueError(fn)


def _patch_extract_lowest():
    F.extract_lowest_set_bit = lambda value: (value & -value)[: len(value)] | (value & (value << 1))[: len(value)]


def _patch_ring():
    import inspect, textwrap

    src = textwrap.dedent(inspect.getsource(E.RingMultiPriorityEncoder.elaborate))
    src = src.replace("with m.If(self.first > self.last):", "with m.If(self.first >= self.last):")
    ns = dict(E.__dict__)
    exec(src, ns)
    E.RingMultiPriorityEncoder.elaborate = ns["elaborate"]


def _patch_selnet():
    import inspect, textwrap

    src = textwrap.dedent(inspect.getsource(E.StableSelectingNetwork.elaborate))
    src = src.replace("Mux(cnt_a <= i, b[i - cnt_a], a[i])", "Mux(cnt_a < i, b[i - cnt_a], a[i])")
    ns = dict(E.__dict__)
    exec(src, ns)
    E.StableSelectingNetwork.elaborate = ns["elaborate"]


CANARIES = [
    {"name": "priority_mux_not_lowest", "cfg": {"fn": "onehotmux", "n": 3, "priority": True, "default": True}, "patch": _patch_extract_lowest, "expect": r"lowest|select"},
    {"name": "ring_first_eq_last_is_full", "cfg": {"fn": "ring_enc", "w": 4, "k": 2}, "patch": _patch_ring, "expect": r"RingMultiPriorityEncoder"},
    {"name": "selnet_off_by_one", "cfg": {"fn": "selnet", "n": 3, "shape": 2}, "patch": _patch_selnet, "expect": r"StableSelectingNetwork"},
]
