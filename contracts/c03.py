"""C03 — a transaction runs only when it is fully enabled.

Per design and transaction: run => ready and every method of the static call tree ready (sites under false
conditions and enable_call=0 included) and validate_arguments of every would-be-active call and every body
it is ready-dependent on runs; Transaction.ready/runnable/run equal the body's signals."""

from contracts import corelib, schedfn

PROPERTY = "C03"
LEVEL = "proof"
ASSUMPTIONS = corelib.CORE_ASSUMPTIONS
TECHNIQUE = "contracts on the elaborated netlist of generated designs (real manager in the loop), discharged by z3 for all inputs; oracle = spec-level design semantics"


def configs(tier):
    return corelib.design_configs(tier, schedulers=("eager", "rr")) + schedfn.configs(tier) + schedfn.configs_rr(tier, small=True)


def run(cfg, ctx):
    if cfg.get("kind") == "schedfn":
        return schedfn.run(PROPERTY, cfg, ctx)
    if cfg.get("kind") == "schedfn_rr":
        return schedfn.run_rr(PROPERTY, cfg, ctx)
    corelib.run_core(PROPERTY, cfg, ctx)


def _patch_ready_for():
    import transactron.core.manager as MG

    def bad(self, trans):
        ms = self.methods_by_transaction[trans]
        return [trans] + [m for m in ms if any(any(c.enable is not None and len(c.call_path) == 1 for c in self.info_by_call[(trans, m)]) for _ in [0])]

    MG.MethodMap.ready_for_transaction = bad


def _patch_validate():
    import transactron.core.body as B
    from amaranth import C

    B.Body._validate_arguments = lambda self, en, arg: C(1)


CANARIES = [
    {"name": "only_direct_callees_must_be_ready", "cfg": {"design": "chain3", "scheduler": "eager"}, "patch": _patch_ready_for, "expect": r"runs_only_when_enabled"},
    {"name": "validators_ignored", "cfg": {"design": "validators", "scheduler": "eager"}, "patch": _patch_validate, "expect": r"runs_only_when_enabled"},
]
