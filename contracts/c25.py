"""C25 — PriorityEncoderAllocator never double-allocates.

view = the free set (bit mask register `not_used`).
alloc[i].ready <=> |free| >= i+1; every running alloc way returns a member of free, pairwise distinct;
peek = free; free' = replace.run ? mask : clear.run ? init : (free \\ allocated) | freed."""

import z3
from transactron.lib.allocators import PriorityEncoderAllocator

from engine.th import TH
from spec.seq import N, bit, popcount, lt

PROPERTY = "C25"
LEVEL = "proof"
ASSUMPTIONS = [
    "caller obligation from the property statement: a running free way passes an identifier that is currently allocated (not in the free set) and below `entries`",
    "(entries, alloc_ways, free_ways, init) swept as listed; unbounded in inputs and history length",
]


def configs(tier):
    out = []
    E = range(1, 7) if tier == "quick" else range(1, 10)
    for e in E:
        for aw in range(1, min(e, 3) + 1):
            for fw in (1, 2):
                # init is a mask; negative masks other than -1 are the usual way to reserve the low identifiers (~0b11)
                inits = ([-1] if e not in (3, 4, 6) else [-1, 0b101 & ((1 << e) - 1), 0, ~0b11, ~0b1]) if tier == "quick" else [-1, 0b101 & ((1 << e) - 1), 0, ~0b11, ~0b101, ~0b1]
                for init in inits:
                    if tier == "quick" and fw == 2 and aw == 3:
                        continue
                    out.append({"entries": e, "alloc_ways": aw, "free_ways": fw, "init": init})
    return out


def run(cfg, ctx):
    e, aw, fw, init = cfg["entries"], cfg["alloc_ways"], cfg["free_ways"], cfg["init"]
    dut = PriorityEncoderAllocator(e, aw, fw, init=init)
    prov = {f"alloc{i}": dut.alloc[i] for i in range(aw)}
    prov.update({f"free{i}": dut.free[i] for i in range(fw)})
    prov.update({"peek": dut.peek, "replace": dut.replace, "clear": dut.clear})
    th = TH(dut, prov, capture=(PriorityEncoderAllocator,))
    hw = ctx.use(th.hw)
    not_used = th.locals_of(dut)["not_used"]
    free0, free1 = hw.sig(not_used), hw.nxt(not_used)
    m = th.m
    initmask = init & ((1 << e) - 1)
    ctx.prove("init.view", hw.ts.at_init(free0 == initmask))
    nfree = popcount(free0)

    def ident(io, res=True):
        t = io.res("ident") if res else io.arg("ident")
        return N(t) if t is not None else N(0)

    A = []
    for j in range(fw):
        f = m[f"free{j}"]
        idj = ident(f, False)
        A.append(z3.Implies(f.run, z3.And(lt(idj, e), z3.Not(z3.Or(*[z3.And(idj == b, bit(free0, b)) for b in range(e)])))))
    for i in range(aw):
        a = m[f"alloc{i}"]
        ctx.prove(f"alloc{i}.ready", z3.Implies(a.en, a.done == z3.UGE(nfree, N(i + 1))), assume=A, hw=hw)
        ida = ident(a)
        ctx.prove(f"alloc{i}.result_is_free", z3.Implies(a.run, z3.Or(*[z3.And(ida == b, bit(free0, b)) for b in range(e)])), assume=A, hw=hw)
        for i2 in range(i):
            a2 = m[f"alloc{i2}"]
            ctx.prove(f"alloc{i}.distinct_from_alloc{i2}", z3.Implies(z3.And(a.run, a2.run), ida != ident(a2)), assume=A, hw=hw)
    pk = m["peek"]
    ctx.prove("peek.result", z3.Implies(pk.run, pk.res("mask") == free0), assume=A, hw=hw)
    ctx.prove("peek.ready", z3.Implies(pk.en, pk.done), assume=A, hw=hw)
    ctx.prove("replace.ready", z3.Implies(z3.And(m["replace"].en, z3.Not(m["clear"].en)), m["replace"].done), assume=A, hw=hw)
    ctx.prove("clear.ready", z3.Implies(z3.And(m["clear"].en, z3.Not(m["replace"].en)), m["clear"].done), assume=A, hw=hw)
    # clear is implemented by calling replace, so replace.run = (user call of replace) or clear.run;
    # the user-level call of a method is its adapter's `done`.
    ctx.prove("clear_replace.exclusive", z3.Not(z3.And(m["clear"].done, m["replace"].done)), assume=A, hw=hw)
    ctx.prove("replace.run_iff_called", m["replace"].run == z3.Or(m["replace"].done, m["clear"].done), assume=A, hw=hw)
    for k, io in m.items():
        if k != "replace":
            ctx.prove(f"{k}.run_iff_done", io.run == io.done, assume=A, hw=hw)
    # whole-view step
    bits = []
    for b in range(e):
        taken = z3.Or(*[z3.And(m[f"alloc{i}"].run, ident(m[f"alloc{i}"]) == b) for i in range(aw)])
        freed = z3.Or(*[z3.And(m[f"free{j}"].run, ident(m[f"free{j}"], False) == b) for j in range(fw)])
        normal = z3.Or(z3.And(bit(free0, b), z3.Not(taken)), freed)
        exp = z3.If(m["replace"].done, bit(m["replace"].arg("mask"), b), z3.If(m["clear"].done, z3.BoolVal(bool((initmask >> b) & 1)), normal))
        bits.append(bit(free1, b) == exp)
    ctx.prove("step.view", z3.And(*bits), assume=A, hw=hw)
    ctx.cover("assumptions", z3.And(*A), hw=hw)
    ctx.cover("all_alloc_ways_run", z3.And(*A, *[m[f"alloc{i}"].run for i in range(aw)]), hw=hw)


def _patch_encoder():
    import transactron.utils.amaranth_ext.elaboratables as E
    import inspect, textwrap

    src = textwrap.dedent(inspect.getsource(E.MultiPriorityEncoder._build_tree))
    src = src.replace("m.d.comb += level_outputs[j].eq(l_out[j - i])", "m.d.comb += level_outputs[j].eq(l_out[0])")
    ns = dict(E.__dict__)
    exec(src, ns)
    E.MultiPriorityEncoder._build_tree = ns["_build_tree"]


def _patch_free_order():
    import transactron.lib.allocators as A
    import inspect, textwrap

    src = textwrap.dedent(inspect.getsource(A.PriorityEncoderAllocator.elaborate))
    src = src.replace("m.d.sync += not_used.bit_select(ident, 1).eq(1)", "m.d.sync += not_used.eq(not_used | (1 << ident))")
    ns = dict(A.__dict__)
    exec(src, ns)
    A.PriorityEncoderAllocator.elaborate = ns["elaborate"]


CANARIES = [
    {"name": "second_way_repeats_first_of_upper_half", "cfg": {"entries": 4, "alloc_ways": 3, "free_ways": 1, "init": -1}, "patch": _patch_encoder, "expect": r"distinct|result_is_free"},
    {"name": "free_overwrites_alloc", "cfg": {"entries": 4, "alloc_ways": 2, "free_ways": 1, "init": -1}, "patch": _patch_free_order, "expect": r"step\.view"},
]
