"""C02 — explicitly conflicting transactions and methods never run together.

For every add_conflict(a, b, priority) in a generated design: not (a.run and b.run) on the real objects'
run signals, for all inputs; T-T, T-M and M-M conflicts, conflicts reached through nested calls and
aliases, endpoints in exclusive branches, and endpoints called from the same transaction."""

from contracts import corelib

PROPERTY = "C02"
LEVEL = "proof"
ASSUMPTIONS = corelib.CORE_ASSUMPTIONS
TECHNIQUE = "contracts on the elaborated netlist of generated designs (real manager in the loop), discharged by z3 for all inputs; oracle = spec-level design semantics"


def configs(tier):
    return corelib.design_configs(tier, schedulers=("eager", "rr"))


def run(cfg, ctx):
    corelib.run_core(PROPERTY, cfg, ctx)


def _patch_no_lift():
    import transactron.core.manager as MG

    orig = MG.MethodMap.transactions_for

    def bad(self, elem):
        r = list(orig(self, elem))
        return r[:1]  # a conflict on a method is lifted to its first caller only

    MG.MethodMap.transactions_for = bad


CANARIES = [{"name": "conflict_lifted_to_first_caller_only", "cfg": {"design": "conflict_mm", "scheduler": "eager"}, "patch": _patch_no_lift, "expect": r"never_both_run"}]
