"""C26 — PreservedOrderAllocator tracks allocation order.

wf: `order` registers hold a permutation of 0..n-1 and used <= n.  view = order[0..used) (oldest first).
alloc.ready <=> used < n and returns order[used] (not in view); free_idx(i), i < used, removes position i;
free(id), id in view, removes id; a simultaneous alloc appends the new id after the removal;
the `order` method returns the registers; clear restores the identity permutation with used = 0."""

import z3
from transactron.lib.allocators import PreservedOrderAllocator

from engine.th import TH
from spec.seq import N, Seq, select, lt, le

PROPERTY = "C26"
LEVEL = "proof"
ASSUMPTIONS = [
    "caller obligations from the property statement: free_idx(i) only with i < used; free(id) only with id currently allocated (in view)",
    "entries swept as listed; unbounded in inputs and history length",
]


def configs(tier):
    return [{"entries": n} for n in (range(1, 7) if tier == "quick" else range(1, 10))]


def run(cfg, ctx):
    n = cfg["entries"]
    dut = PreservedOrderAllocator(n)
    th = TH(dut, {"alloc": dut.alloc, "free": dut.free, "free_idx": dut.free_idx, "order": dut.order, "clear": dut.clear}, capture=(PreservedOrderAllocator,))
    hw = ctx.use(th.hw)
    loc = th.locals_of(dut)
    order, used = loc["order"], loc["used"]

    def nat(t):
        return N(t) if t is not None else N(0)

    o0 = [nat(hw.sig(order[i])) for i in range(n)]
    o1 = [nat(hw.nxt(order[i])) for i in range(n)]
    u0, u1 = N(hw.sig(used)), N(hw.nxt(used))

    def wf(o, u):
        cs = [le(u, n)]
        for v in range(n):
            cs.append(z3.Or(*[o[i] == v for i in range(n)]))  # surjective onto 0..n-1 (hence a permutation)
        return z3.And(*cs)

    m = th.m
    al, fr, fi, od, cl = m["alloc"], m["free"], m["free_idx"], m["order"], m["clear"]
    v0, v1 = Seq(u0, o0), Seq(u1, o1)
    idx_arg = nat(fi.arg("idx"))
    id_arg = nat(fr.arg("ident"))
    in_view = lambda x: z3.Or(*[z3.And(lt(i, u0), o0[i] == x) for i in range(n)])
    A = [z3.Implies(fi.done, z3.ULT(idx_arg, u0)), z3.Implies(fr.done, in_view(id_arg))]
    pre = [wf(o0, u0)]
    ctx.prove("init.wf", hw.ts.at_init(z3.And(wf(o0, u0), u0 == 0, *[o0[i] == i for i in range(n)])))
    ctx.prove("step.wf", wf(o1, u1), pre=pre, assume=A, hw=hw)
    ctx.prove("alloc.ready", z3.Implies(al.en, al.done == z3.ULT(u0, N(n))), pre=pre, assume=A, hw=hw)
    res = nat(al.res("ident"))
    ctx.prove("alloc.result", z3.Implies(al.run, z3.And(res == select(o0, u0), z3.Not(in_view(res)))), pre=pre, assume=A, hw=hw)
    ctx.prove("order.ready", z3.Implies(od.en, od.done), pre=pre, assume=A, hw=hw)
    ctx.prove("order.result", z3.Implies(od.run, z3.And(N(od.res("used")) == u0, *[nat(hw.sig(od.adapter.data_out.order[i])) == o0[i] for i in range(n)])), pre=pre, assume=A, hw=hw)
    ctx.prove("free_vs_free_idx.exclusive", z3.Not(z3.And(fr.done, fi.done)), pre=pre, assume=A, hw=hw)
    ctx.prove("free.ready", z3.Implies(z3.And(fr.en, z3.Not(fi.en)), fr.done), pre=pre, assume=A, hw=hw)
    ctx.prove("free_idx.ready", z3.Implies(z3.And(fi.en, z3.Not(fr.en)), fi.done), pre=pre, assume=A, hw=hw)
    ctx.prove("clear.ready", z3.Implies(cl.en, cl.done), pre=pre, assume=A, hw=hw)
    # position removed this cycle (if any): by index, or the position holding the freed identifier
    pos_of_id = N(0)
    for i in reversed(range(n)):
        pos_of_id = z3.If(o0[i] == id_arg, N(i), pos_of_id)
    removing = z3.Or(fi.done, fr.done)
    pos = z3.If(fi.done, idx_arg, pos_of_id)
    removed = Seq(u0 - N(removing), [z3.If(z3.And(removing, z3.UGE(N(i), pos)), select(o0, N(i) + 1), o0[i]) for i in range(n)])
    new_id = select(o0, u0)
    after = removed.append1(new_id, al.run)
    exp = Seq.ite(cl.done, Seq(N(0), o0), after)
    ctx.prove("step.view", v1.eq(exp), pre=pre, assume=A, hw=hw)
    ctx.prove("clear.restores_initial", z3.Implies(cl.done, z3.And(u1 == 0, *[o1[i] == i for i in range(n)])), pre=pre, assume=A, hw=hw)
    if n > 1:
        ctx.cover("alloc+free", z3.And(*pre, *A, al.run, fr.done), hw=hw)
    ctx.cover("full", z3.And(*pre, u0 == n), hw=hw)
    if n > 1:
        ctx.cover("free_idx_middle", z3.And(*pre, *A, fi.done, idx_arg == 0, u0 == n), hw=hw)


def _patch():
    import transactron.lib.allocators as A
    import inspect, textwrap

    src = textwrap.dedent(inspect.getsource(A.PreservedOrderAllocator.elaborate))
    src = src.replace("with m.If(i >= idx):", "with m.If(i > idx):")
    ns = dict(A.__dict__)
    exec(src, ns)
    A.PreservedOrderAllocator.elaborate = ns["elaborate"]


CANARIES = [{"name": "free_idx_shifts_from_next", "cfg": {"entries": 4}, "patch": _patch, "expect": r"step\.(view|wf)"}]
