"""C34 — hardware logs and assertions fire exactly when triggered (mixed: netlist proof + bounded run-time contracts).

P-prog: HardwareLogger.debug/info/warning/error/assertion and top_* placed at the top of a transaction body, in If/Elif/
  Else and Switch branches, inside a called method: for all inputs the registered trigger equals
  run and enclosing conditions and (trigger expression != 0)   (assertion: value == 0; top_*: no context), the
  registered fields are the argument expressions, level and logger name as given.
B (bounded): LogRecordInfo.format(*values) == Python's format_string.format(*values) for format specs
  {} {:x} {:b} {:d} {:#x} {:04} {:>4} {:+d}, positional and keyword fields, <= 3 fields, all values of 1-5 bit signed and
  unsigned fields; the `s` conversion against bytes.decode; make_logging_process on the simulator stub: a record is sent
  to `logging` iff its trigger sample is 1 (with level, location, message), on_error is called iff level >= ERROR,
  filtering by level and namespace regexp.
Not decided: that on_error's `assert False` ends the pytest simulation (test-harness glue)."""

import itertools
import logging

import z3
from amaranth import Elaboratable, Signal, signed, Value
from amaranth.hdl import _ast as A
from transactron import TModule, Method, Transaction, def_method
from transactron.core.context import TransactronContextElaboratable
from transactron.utils import logging as tlog
from transactron.utils.dependencies import DependencyContext, DependencyManager

from engine.hw import HW, Recorder
from engine.simstub import StubSim, EndOfScript, drive, evaluate

PROPERTY = "C34"
LEVEL = "proof"
ENGINE = "E-HW + E-RT"
TECHNIQUE = "log-record triggers/fields proved on the netlist of a generated design (z3, all inputs); message formatting and the logging process by run-time contracts over exhaustively enumerated values / histories (bounded)"
ASSUMPTIONS = [
    "hardware clause: bounded over the placements of the harness design, proved for all inputs",
    "formatting and logging-process clauses are bounded stand-ins (all values of 1-5 bit fields, <= 3 fields; <= 3 records x 3 cycles)",
    "that an ERROR record ends a pytest simulation (on_error -> assert) is test-harness glue and not decided here; the contract checks that on_error is called exactly for records of level >= ERROR",
]


def configs(tier):
    out = [{"part": "hw"}, {"part": "process"}]
    specs = ["{}", "{:x}", "{:b}", "{:d}", "{:#x}", "{:04}", "{:>4}", "{:+d}"]
    for i, sp in enumerate(specs):
        out.append({"part": "format", "spec": sp})
    out.append({"part": "format_multi"})
    out.append({"part": "format_s"})
    return out


class LogDesign(Elaboratable):
    def __init__(self):
        self.ins = []
        self.sites = []
        self.log = tlog.HardwareLogger("verif.c34")

    def inp(self, name, shape=1):
        s = Signal(shape, name=name)
        self.ins.append(s)
        return s

    def site(self, m, body, cond, how):
        n = len(self.sites)
        t = self.inp(f"trig{n}", 2)
        f1, f2 = self.inp(f"fa{n}", 3), self.inp(f"fb{n}", signed(2))
        lg = self.log
        if how == "assertion":
            lg.assertion(m, t, "assert {} {}", f1, f2)
        elif how == "top_assertion":
            lg.top_assertion(t, "assert {} {}", f1, f2)
        elif how.startswith("top_"):
            getattr(lg, how)(t, "msg {} {:x}", f1, f2)
        else:
            getattr(lg, how)(m, t, "msg {} {:x}", f1, f2)
        self.sites.append((how, body, cond, t, [f1, f2]))

    def elaborate(self, platform):
        m = TModule()
        c1, c2, sel, mrdy, trdy = self.inp("c1"), self.inp("c2"), self.inp("sel", 2), self.inp("mrdy"), self.inp("trdy")
        self.M = Method(name="M", i=[("a", 1)])
        b = lambda s: (lambda hw: hw.b(s))
        T = lambda hw: z3.BoolVal(True)

        @def_method(m, self.M, ready=mrdy)
        def _(a):
            self.site(m, self.M, T, "info")
            with m.If(c2):
                self.site(m, self.M, b(c2), "assertion")

        self.T = Transaction(name="T")
        with self.T.body(m, ready=trdy):
            self.site(m, self.T, T, "debug")
            with m.If(c1):
                self.site(m, self.T, b(c1), "warning")
                self.M(m, a=1)
            with m.Elif(c2):
                self.site(m, self.T, lambda hw: z3.And(z3.Not(hw.b(c1)), hw.b(c2)), "error")
            with m.Else():
                self.site(m, self.T, lambda hw: z3.And(z3.Not(hw.b(c1)), z3.Not(hw.b(c2))), "assertion")
            with m.Switch(sel):
                with m.Case(2):
                    self.site(m, self.T, lambda hw: hw.sig(sel) == 2, "info")
                with m.Default():
                    self.site(m, self.T, lambda hw: hw.sig(sel) != 2, "error")
            self.site(m, None, T, "top_warning")
            self.site(m, None, T, "top_assertion")
        self.site(m, None, T, "top_error")
        return m


LEVELS = {"debug": logging.DEBUG, "info": logging.INFO, "warning": logging.WARNING, "error": logging.ERROR, "assertion": logging.ERROR}


def trig_of(hw, rec):
    """z3 Bool of a record trigger built from Signals with bool / reduce-or / invert wrappers"""
    def go(v):
        if isinstance(v, A.Signal):
            return hw.sig(v) != 0
        if isinstance(v, A.Operator) and v.operator in ("b", "r|") and len(v.operands) == 1:
            o = v.operands[0]
            if isinstance(o, A.Signal):
                return hw.sig(o) != 0
            return go(o)
        if isinstance(v, A.Operator) and v.operator == "~" and len(v.operands) == 1:
            inner = v.operands[0]
            if len(inner) == 1:
                return z3.Not(go(inner))
            raise NotImplementedError("~ of a multi-bit value")
        raise NotImplementedError(repr(v))

    return go(rec.trigger)


def run(cfg, ctx):
    part = cfg["part"]
    if part == "hw":
        dm = DependencyManager()
        d = LogDesign()
        top = TransactronContextElaboratable(d, dependency_manager=dm)
        from amaranth.hdl._ir import Fragment

        rec_ = Recorder(())
        with rec_:
            frag = Fragment.get(top, None)
        recs = [r for r in dm.get_dependency(tlog.LogKey()) if r.logger_name == "verif.c34"]
        hw = HW(frag, d.ins, [d.T.run, d.M.run])
        hw.rec = rec_
        ctx.use(hw)
        ctx.structural("one_record_per_site_in_order", len(recs) == len(d.sites), "dependency manager inspection", detail=f"{len(recs)} records / {len(d.sites)} sites")
        for i, (r, (how, body, cond, t, fields)) in enumerate(zip(recs, d.sites)):
            base = how[4:] if how.startswith("top_") else how
            tt = hw.sig(t)
            if base == "assertion":
                if how.startswith("top_"):
                    # top_assertion(value): ~value.any() -- evaluated structurally below
                    fire = tt == 0
                    got = top_trigger(hw, r)
                else:
                    fire = tt == 0
                    got = hw.sig(sig_of(r.trigger)) != 0
            else:
                fire = tt != 0
                got = top_trigger(hw, r) if how.startswith("top_") else hw.sig(sig_of(r.trigger)) != 0
            if how.startswith("top_"):
                ctx.prove(f"site{i}.{how}.trigger_is_condition_only", got == fire, hw=hw)
            else:
                ctx.prove(f"site{i}.{how}.trigger_is_run_and_conditions_and_condition", got == z3.And(hw.b(body.run), cond(hw), fire), hw=hw)
            ctx.prove(f"site{i}.{how}.fields_are_the_arguments", z3.And(*[hw.sig(a) == hw.sig(b) for a, b in zip(r.fields, fields)]), hw=hw)
            ctx.structural(f"site{i}.{how}.level_and_name", r.level == LEVELS[base] and r.logger_name == "verif.c34" and len(r.fields) == 2, "record inspection", detail=f"level {r.level}")
        ctx.cover("some_error_fires", z3.Or(*[(top_trigger(hw, r) if h.startswith("top_") else hw.sig(sig_of(r.trigger)) != 0) for r, (h, *_rest) in zip(recs, d.sites) if r.level >= logging.ERROR]), hw=hw)
        return
    ctx.functions.update({("LogRecordInfo.format", "transactron/utils/logging.py"), ("HardwareLogger.top_log", "transactron/utils/logging.py"),
                          ("make_logging_process", "transactron/testing/logging.py"), ("get_log_records", "transactron/utils/logging.py"), ("get_trigger_bit", "transactron/utils/logging.py")})
    if part in ("format", "format_multi", "format_s"):
        fails, n = [], 0
        if part == "format":
            sp = cfg["spec"]
            for w in range(1, 6):
                for sg in (False, True):
                    dm = DependencyManager()
                    with DependencyContext(dm):
                        s = Signal(signed(w) if sg else w)
                        fmt = "v=" + sp + ";"
                        tlog.HardwareLogger("f").top_log(logging.INFO, 1, fmt, s)
                        (rec,) = dm.get_dependency(tlog.LogKey())
                    vals = range(-(1 << (w - 1)), 1 << (w - 1)) if sg else range(1 << w)
                    for v in vals:
                        n += 1
                        exp = fmt.format(v)
                        got = rec.format(v)
                        if got != exp:
                            fails.append({"format": fmt, "width": w, "signed": sg, "value": v, "got": got, "expected": exp})
            ctx.bounded_result(f"format[{sp}].matches_python_format", n, n, fails, rule="every value of every 1-5 bit signed and unsigned field for this format spec", samples=[{"format": "v=" + sp + ";", "value": 5}], exhaustive=True)
        elif part == "format_multi":
            # (format string, number of positional fields used, keyword fields used)
            fmts = [("{} {} {}", 3, []), ("{0} {2} {1}", 3, []), ("{a} {} {b:x}", 1, ["a", "b"]), ("{:b}|{c:+d}|{:04}", 2, ["c"]), ("plain text only", 0, []),
                    ("{{literal}} {}", 1, []), ("{a}{a}", 0, ["a"])]
            for fmt, npos, kws in fmts:
                dm = DependencyManager()
                with DependencyContext(dm):
                    p = [Signal(3, name="p0"), Signal(signed(3), name="p1"), Signal(2, name="p2")][:npos]
                    allkw = {"a": Signal(signed(2), name="ka"), "b": Signal(4, name="kb"), "c": Signal(signed(3), name="kc")}
                    kw = {k: allkw[k] for k in kws}
                    tlog.HardwareLogger("f").top_log(logging.INFO, 1, fmt, *p, **kw)
                    (rec,) = dm.get_dependency(tlog.LogKey())
                sigs = p + list(kw.values())
                domains = [range(-(1 << (len(s) - 1)), 1 << (len(s) - 1)) if s.shape().signed else range(1 << len(s)) for s in sigs]
                for combo in itertools.product(*domains):
                    n += 1
                    env = {id(s): v for s, v in zip(sigs, combo)}
                    exp = fmt.format(*combo[:npos], **{k: env[id(v)] for k, v in kw.items()})
                    got = rec.format(*[env[id(f)] for f in rec.fields])
                    if got != exp:
                        fails.append({"format": fmt, "values": combo, "got": got, "expected": exp})
            ctx.bounded_result("format.positional_and_keyword_fields", n, n, fails, rule="7 format strings (positional, indexed, keyword, repeated and escaped fields) x every valuation of their 2-4 bit signed/unsigned fields",
                               samples=[{"format": "{a} {} {b:x}"}], exhaustive=True)
        else:
            texts = ["", "a", "ok", "abc", "A b"]
            for txt in texts:
                for spec in ("{:s}", "{:>5s}", "{:5s}"):
                    dm = DependencyManager()
                    with DependencyContext(dm):
                        s = Signal(8 * max(1, len(txt)))
                        tlog.HardwareLogger("f").top_log(logging.INFO, 1, "<" + spec + ">", s)
                        (rec,) = dm.get_dependency(tlog.LogKey())
                    n += 1
                    v = int.from_bytes(txt.encode(), "little")
                    exp = ("<" + spec + ">").format(txt)
                    got = rec.format(v)
                    if got != exp:
                        fails.append({"text": txt, "spec": spec, "got": got, "expected": exp})
            ctx.bounded_result("format.s_conversion_decodes_bytes", n, n, fails, rule="5 short ASCII strings packed little-endian x 3 string format specs", samples=[{"text": "ok"}], exhaustive=True)
        return
    # logging process on the stub
    from transactron.testing.logging import make_logging_process
    from transactron.testing.tick_count import TicksKey

    fails, n = [], 0
    # every registration order of the three severities: which records were registered before / after the ERROR record must not matter
    for lvls, (min_level, regexp) in itertools.product(map(list, itertools.permutations([logging.DEBUG, logging.WARNING, logging.ERROR])),
                                                        ((logging.DEBUG, ".*"), (logging.WARNING, ".*"), (logging.DEBUG, "^keep"))):
        dm = DependencyManager()
        ticks = Signal(64, name="ticks")
        dm.add_dependency(TicksKey(), ticks)
        trigs = [Signal(name=f"t{i}") for i in range(3)]
        flds = [Signal(3, name=f"f{i}") for i in range(3)]
        names = ["keep.a", "drop.b", "keep.c"]
        with DependencyContext(dm):
            for i in range(3):
                tlog.HardwareLogger(names[i]).top_log(lvls[i], trigs[i], "rec%d {}" % i, flds[i])
            for tv in itertools.product(range(8), repeat=3):
                n += 1
                errors = []
                captured = []

                class H(logging.Handler):
                    def emit(self, record):
                        captured.append((record.name, record.levelno, record.getMessage()))

                h = H()
                root = logging.getLogger()
                old_level = root.level
                root.addHandler(h)
                root.setLevel(0)

                def world(t, env):
                    if t >= 3:
                        raise EndOfScript()
                    env[id(ticks)] = 100 + t
                    for i in range(3):
                        env[id(trigs[i])] = (tv[t] >> i) & 1
                        env[id(flds[i])] = (t + 2 * i) % 8

                try:
                    proc = make_logging_process(min_level, regexp, lambda: errors.append(1))
                    drive(proc(StubSim(world)))
                finally:
                    root.removeHandler(h)
                    root.setLevel(old_level)
                import re as _re

                sel = [i for i in range(3) if lvls[i] >= min_level and _re.search(regexp, names[i])]
                exp = [(names[i], lvls[i], i, t) for t in range(3) for i in sel if (tv[t] >> i) & 1]
                ok = len(captured) == len(exp) and all(c[0] == e[0] and c[1] == e[1] and c[2].endswith(f"rec{e[2]} {(e[3] + 2 * e[2]) % 8}") for c, e in zip(captured, exp))
                ok = ok and len(errors) == sum(1 for e in exp if e[1] >= logging.ERROR)
                if not ok:
                    fails.append({"registration_order": lvls, "level": min_level, "regexp": regexp, "triggers": tv, "captured": captured[:6], "expected": exp[:6], "errors": len(errors)})
    ctx.bounded_result("logging_process.reports_exactly_triggered_records", n, n, fails, rule="every trigger history of 3 records (DEBUG/WARNING/ERROR in each of the 6 registration orders, two namespaces) over 3 cycles, for 3 (level, namespace) filters",
                       samples=[{"triggers": [5, 0, 7]}], exhaustive=True)


def sig_of(trigger):
    t = trigger
    while isinstance(t, A.Operator) and t.operator in ("b", "r|") and len(t.operands) == 1:
        t = t.operands[0]
    assert isinstance(t, A.Signal), repr(t)
    return t


def top_trigger(hw, rec):
    """trigger of a top_* record: an expression over the harness input; translated structurally (bool / ~ / reduce-or)"""
    def go(v):
        if isinstance(v, A.Signal):
            return hw.sig(v)
        if isinstance(v, A.Operator) and v.operator in ("b", "r|") and len(v.operands) == 1:
            inner = go(v.operands[0])
            return z3.If(inner != 0, z3.BitVecVal(1, 1), z3.BitVecVal(0, 1))
        if isinstance(v, A.Operator) and v.operator == "~" and len(v.operands) == 1:
            return ~go(v.operands[0])
        raise NotImplementedError(repr(v))

    return go(rec.trigger) != 0


def _patch_assertion():
    src_obj = tlog.HardwareLogger
    import inspect, textwrap

    src = textwrap.dedent(inspect.getsource(src_obj.assertion))
    old = "self.error(m, ~Value.cast(value).any(), format, *args, src_loc=get_src_loc(src_loc), **kwargs)"
    assert old in src
    src = src.replace(old, "self.error(m, ~Value.cast(value), format, *args, src_loc=get_src_loc(src_loc), **kwargs)")
    ns = dict(tlog.__dict__)
    exec(src, ns)
    tlog.HardwareLogger.assertion = ns["assertion"]


def _patch_format():
    import inspect, textwrap

    src = textwrap.dedent(inspect.getsource(tlog.LogRecordInfo.format))
    old = "chunks.append(format(fmt_val, fmt))"
    assert old in src
    src = src.replace(old, "chunks.append(format(abs(fmt_val) if isinstance(fmt_val, int) and fmt.endswith('x') else fmt_val, fmt))")
    ns = dict(tlog.__dict__)
    exec(src, ns)
    fn = ns.pop("format")  # the body calls the builtin format(); keep it out of the function's globals
    tlog.LogRecordInfo.format = fn


def _patch_on_error():
    import transactron.testing.logging as TL
    import inspect, textwrap

    src = textwrap.dedent(inspect.getsource(TL.make_logging_process))
    old = "if record.level >= logging.ERROR:"
    assert old in src
    src = src.replace(old, "if record.level > logging.ERROR:")
    ns = dict(TL.__dict__)
    exec(src, ns)
    TL.make_logging_process = ns["make_logging_process"]


CANARIES = [
    {"name": "assertion_fires_unless_all_bits_set", "cfg": {"part": "hw"}, "patch": _patch_assertion, "expect": r"assertion\.trigger"},
    {"name": "hex_format_drops_sign", "cfg": {"part": "format", "spec": "{:x}"}, "patch": _patch_format, "expect": r"format\[\{:x\}\]"},
    {"name": "error_level_does_not_call_on_error", "cfg": {"part": "process"}, "patch": _patch_on_error, "expect": r"logging_process"},
]
