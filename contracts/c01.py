"""C01 — an exclusive method serves at most one active call per cycle.

Per generated design (real TModule/Method/Transaction/TransactionManager elaborated, netlist extracted):
for every exclusive method, at most one of its call sites is active (caller's real `run` signal and the
spec-level condition of the site), for all inputs and register values; and every pair of transactions that
the spec-level oracle finds able to double-activate an exclusive method never runs together.

Function contracts between the property and the code that implements it (each localises a failure to one function):
  contracts/ctrlpath.py  CtrlPath.exclusive_with / is_prefix / is_proper_prefix, call_paths_exclusive,
                         longest_common_prefix == their spec functions (E-PY, all element values, bounded lengths)
  contracts/mgrfn.py     TransactionManager._conflict_graph: cgr symmetric and sound w.r.t. the oracle's SpecConf
  contracts/schedfn.py   eager_deterministic_cc_scheduler: neighbours in the graph never both run (every graph, n <= 4/5)"""

from contracts import corelib, schedfn, ctrlpath

PROPERTY = "C01"
LEVEL = "proof"
ENGINE = "E-HW + E-PY"
ASSUMPTIONS = corelib.CORE_ASSUMPTIONS
TECHNIQUE = "contracts on the elaborated netlist of generated designs (real manager in the loop), discharged by z3 for all inputs; oracle = spec-level design semantics"


def configs(tier):
    return corelib.design_configs(tier, schedulers=("eager", "rr")) + schedfn.configs(tier) + schedfn.configs_rr(tier, small=True) + ctrlpath.configs(tier)


def run(cfg, ctx):
    if cfg.get("kind") == "schedfn":
        return schedfn.run(PROPERTY, cfg, ctx)
    if cfg.get("kind") == "schedfn_rr":
        return schedfn.run_rr(PROPERTY, cfg, ctx)
    if cfg.get("kind") == "ctrlpath":
        return ctrlpath.run(PROPERTY, cfg, ctx)
    corelib.run_core(PROPERTY, cfg, ctx)


def _patch_exclusive_with():
    import transactron.core.tmodule as TM

    def bad(self, other):
        common_prefix = []
        for a, b in zip(self.path, other.path):
            if a == b:
                common_prefix.append(a)
            else:
                break  # ignores `par`: parallel structures are treated as alternatives
        return self.module == other.module and len(common_prefix) != len(self.path) and len(common_prefix) != len(other.path)

    TM.CtrlPath.exclusive_with = bad


def _patch_scheduler_range():
    import transactron.core.schedulers as S
    import transactron.core.manager as MG
    from amaranth import Module, Cat

    def sched(method_map, gr, cc, porder):
        m = Module()
        ccl = list(cc)
        ccl.sort(key=lambda t: porder[t])
        for k, transaction in enumerate(ccl):
            conflicts = [ccl[j].run for j in range(k - 1) if ccl[j] in gr[transaction]]
            m.d.comb += transaction.run.eq(transaction.ready & transaction.runnable & ~Cat(conflicts).any())
        return m

    S.eager_deterministic_cc_scheduler = sched
    MG.eager_deterministic_cc_scheduler = sched
    import designs.build as B
    B.eager_deterministic_cc_scheduler = sched


def _patch_exclusive_with_module():
    import transactron.core.tmodule as TM

    def bad(self, other):
        for a, b in zip(self.path, other.path):
            if a != b:
                return a.par == b.par
        return False

    TM.CtrlPath.exclusive_with = bad


def _patch_no_implicit_conflicts_for_nested():
    import transactron.core.manager as MG
    import inspect, textwrap

    src = textwrap.dedent(inspect.getsource(MG.TransactionManager._conflict_graph))
    old = "if transaction1 is not transaction2 and not calls_nonexclusive(transaction1, transaction2, method):"
    assert old in src
    src = src.replace(old, "if transaction1 is not transaction2 and 'TN' not in (transaction1.name, transaction2.name) and not calls_nonexclusive(transaction1, transaction2, method):")
    ns = dict(MG.__dict__)
    exec(src, ns)
    MG.TransactionManager._conflict_graph = staticmethod(ns["_conflict_graph"])


CANARIES = [
    {"name": "conflict_graph_skips_nested_transactions", "cfg": {"design": "nested_child_conflict", "scheduler": "eager"}, "patch": _patch_no_implicit_conflicts_for_nested, "expect": r"_conflict_graph\.sound\[T0,TN\]"},
    {"name": "exclusive_with_function_ignores_par", "cfg": {"kind": "ctrlpath", "fn": "ctrlpath", "len": [2, 2]}, "patch": _patch_exclusive_with, "expect": r"CtrlPath\.exclusive_with.*result_equals_spec"},
    {"name": "exclusive_with_function_ignores_module", "cfg": {"kind": "ctrlpath", "fn": "call_paths", "len": [1, 1], "inner": [0, 1, 2]}, "patch": _patch_exclusive_with_module, "expect": r"call_paths_exclusive.*result_equals_spec"},
    {"name": "exclusive_with_ignores_par", "cfg": {"design": "disabled_calls", "scheduler": "eager"}, "patch": _patch_exclusive_with, "expect": r"at_most_one|never_run_together", "error_ok": False},
    {"name": "scheduler_skips_nearest_conflict", "cfg": {"design": "two_callers", "scheduler": "eager"}, "patch": _patch_scheduler_range, "expect": r"at_most_one|never_run_together"},
]
