"""C28 — PipelineBuilder pipelines are ordered, lossless and compute the composed stages.

Pipeline shapes are generated from a small grammar (external source, stage function, called method, external sink;
Pipe or fifo(d) connectors; decoupled no_dependency sources; free `ready` per stage); both the pipeline (through the
real builder API) and its specification come from the same shape description.
Abstract model: a chain of bounded queues q_0..q_{n-2} (plus one per no_dependency Pipe) whose views are taken from the
real connectors (C14/C17 abstraction functions). Per node i (fire_i = its combiner method runs):
  fire_i <=> input available and output has room (per that connector's contract) and the node is ready and its
             external party is willing;
  the node's consumer sees exactly its required fields of head(q_{i-1}); the record appended to q_i carries the node's
  generated fields (argument / method result / stage function of the inputs) and copies the other live fields;
  q_i' = clear ? [] : append(drop(q_i, fire_{i+1}), record_i if fire_i)   (whole view; nothing else changes).
Lossless / ordered / once-per-stage then follows for a chain of FIFO queues (Lean lemmas Hist.move_preserves / source_push / sink_pop / queue_history)."""

import z3
from amaranth import Elaboratable, Signal, unsigned
from transactron import TModule, Method, def_method
from transactron.lib.pipeline import PipelineBuilder
from transactron.lib.connectors import Pipe
from transactron.lib.fifo import BasicFifo
from transactron.lib.allocators import CircularAllocator
from transactron.lib.adapters import AdapterTrans

from engine.th import TH
from spec.seq import N, Seq
from spec.components import BasicFifoRep

PROPERTY = "C28"
HISTORY_LEMMAS = ['move_preserves', 'source_push', 'sink_pop', 'queue_history']  # lemmas/History.lean: one-cycle contracts => history-level statement (Lean 4)
LEVEL = "proof"
ASSUMPTIONS = [
    "pipeline shapes are bounded to the listed grammar instances (2-5 nodes, 2-bit fields); per shape all inputs and all histories (1-induction over the connectors' invariants)",
    "the composition of per-cycle simultaneous stage firings into a sequence of single moves (each of which Hist.move_preserves covers) is not machine-checked; the tracked-item ghost carries the same claim for an arbitrary item through the real netlist",
]
W = 2

# node kinds: ("src", [fields]) | ("fn", [inputs], [outputs]) | ("call", [inputs], [outputs]) | ("sink", [fields]) | ("nodep_src", [fields])
# link kinds (one per node except the first): "pipe" | ("fifo", d)
SHAPES = {
    "src_fn_sink": ([("src", ["a"]), ("fn", ["a"], ["a"]), ("sink", ["a"])], ["pipe", "pipe"]),
    "passthrough_fields": ([("src", ["a", "b"]), ("fn", ["a", "b"], ["c"]), ("fn", [], []), ("sink", ["a", "b", "c"])], ["pipe", "pipe", "pipe"]),
    "fifo_links": ([("src", ["a"]), ("fn", ["a"], ["b"]), ("sink", ["a", "b"])], [("fifo", 2), ("fifo", 3)]),
    "mixed_links": ([("src", ["a"]), ("fn", ["a"], ["b"]), ("fn", ["b"], ["a"]), ("sink", ["a"])], ["pipe", ("fifo", 2), "pipe"]),
    "called_method": ([("src", ["a"]), ("call", ["a"], ["r"]), ("sink", ["a", "r"])], ["pipe", ("fifo", 2)]),
    "field_dropped_and_reintroduced": ([("src", ["a", "b"]), ("fn", ["a"], ["c"]), ("fn", ["b", "c"], ["a"]), ("sink", ["a"])], ["pipe", "pipe", "pipe"]),
    "decoupled_source": ([("src", ["a"]), ("nodep_src", ["b"]), ("fn", ["a", "b"], ["c"]), ("sink", ["c"])], ["pipe", "pipe", "pipe"]),
    "two_nodes": ([("src", ["a"]), ("sink", ["a"])], [("fifo", 1)]),
    "call_then_fn": ([("src", ["a"]), ("call", ["a"], ["r"]), ("fn", ["a", "r"], ["s"]), ("sink", ["s"])], [("fifo", 2), "pipe", ("fifo", 2)]),
    # the same field name re-generated with another width (a stage that narrows / widens a field it reads)
    "narrowing_overwrite": ([("src", ["a"], {"a": 3}), ("fn", ["a"], ["a"], {"a": 1}), ("sink", ["a"])], ["pipe", "pipe"]),
    "widening_overwrite_fifo": ([("src", ["a", "b"], {"a": 1}), ("fn", ["a"], ["a"], {"a": 3}), ("fn", ["a", "b"], ["c"]), ("sink", ["a", "c"])], [("fifo", 2), "pipe", "pipe"]),
    # an empty point (allow_empty=True): between the two nodes only the presence of an item is passed on
    "empty_point": ([("src", ["a"]), ("fn", ["a"], []), ("call", [], ["r"]), ("sink", ["r"])], ["pipe", "pipe", "pipe"]),
    "five_nodes": ([("src", ["a"]), ("fn", ["a"], ["b"]), ("fn", ["a", "b"], ["c"]), ("fn", ["c"], ["d"]), ("sink", ["d"])], ["pipe", "pipe", ("fifo", 2), "pipe"]),
}
QUICK = ["src_fn_sink", "passthrough_fields", "fifo_links", "mixed_links", "called_method", "decoupled_source", "narrowing_overwrite", "widening_overwrite_fifo", "empty_point"]


def configs(tier):
    return [{"shape": s} for s in (QUICK if tier == "quick" else SHAPES)]


def lay(fields, widths=None):
    return [(f, unsigned((widths or {}).get(f, W))) for f in fields]


def gen_of(node):
    return {"src": node[1], "nodep_src": node[1], "sink": [], "fn": node[2] if node[0] == "fn" else [], "call": node[2] if node[0] == "call" else []}[node[0]]


def req_of(node):
    return {"src": [], "nodep_src": [], "sink": node[1], "fn": node[1] if node[0] == "fn" else [], "call": node[1] if node[0] == "call" else []}[node[0]]


def out_widths(node):
    """declared widths of the fields a node generates (default W)"""
    decl = next((x for x in node[1:] if isinstance(x, dict)), {})
    return {f: decl.get(f, W) for f in gen_of(node)}


def spec_layouts(nodes):
    """Specification-level liveness, from the shape description only: for every link i (node i -> i+1) the live fields
    with the width given by their most recent producer; for every node the widths of the fields it requires."""
    n = len(nodes)
    cur = {}  # field -> width after node i
    after = []
    seen_in = []
    for node in nodes:
        seen_in.append({f: cur[f] for f in req_of(node)})
        cur = {**cur, **out_widths(node)}
        after.append(dict(cur))
    links = []
    for i in range(n - 1):
        need = set()
        for k in range(n - 1, i, -1):
            need = (need - set(gen_of(nodes[k]))) | set(req_of(nodes[k]))
        links.append({f: after[i][f] for f in need})
    return links, seen_in


def _stage_body(ins, outs, ow):
    def body(arg):
        s = sum((arg[k] for k in ins), 0) + 1
        return {o: (s + j)[: ow[o]] for j, o in enumerate(outs)} if outs else None

    return body


def _callee_body(ins, outs):
    def body(arg):
        if not ins:
            return {o: 2 for o in outs}
        return {o: (~arg[ins[0]])[:W] for o in outs}

    return body


class PipeDesign(Elaboratable):
    """Builds the pipeline of a shape through the real PipelineBuilder API. External methods, free ready signals and
    the clear alias are created up front so that the harness can attach its adapters / ports to them."""

    def __init__(self, shape):
        self.nodes, self.links = SHAPES[shape]
        self.ext, self.ready, self.called_ready, self.called = {}, {}, {}, {}
        self.spec_links, self.spec_in = spec_layouts(self.nodes)
        for i, node in enumerate(self.nodes):
            if node[0] in ("src", "nodep_src"):
                self.ext[i] = Method(name=f"src{i}", i=lay(node[1], out_widths(node)))
            elif node[0] == "sink":
                self.ext[i] = Method(name=f"sink{i}", o=lay(node[1], self.spec_in[i]))
            elif node[0] == "fn":
                self.ready[i] = Signal(name=f"rdy{i}")
            elif node[0] == "call":
                self.called_ready[i] = Signal(name=f"callee_rdy{i}")
        self.clear_method = Method(name="pipeline_clear")

    def elaborate(self, platform):
        m = TModule()
        m.submodules.pipeline = p = self.p = PipelineBuilder(allow_empty=any(not lk for lk in self.spec_links))
        for i, node in enumerate(self.nodes):
            if i > 0 and self.links[i - 1] != "pipe":
                p.fifo(self.links[i - 1][1])
            kind = node[0]
            if kind in ("src", "sink"):
                p.add_external(self.ext[i])
            elif kind == "nodep_src":
                p.add_external(self.ext[i], no_dependency=True)
            elif kind == "fn":
                p.stage(m, o=lay(node[2], out_widths(node)), i=lay(node[1], self.spec_in[i]), ready=self.ready[i])(_stage_body(node[1], node[2], out_widths(node)))
            elif kind == "call":
                meth = Method(name=f"callee{i}", i=lay(node[1], self.spec_in[i]), o=lay(node[2], out_widths(node)))
                self.called[i] = (meth, self.called_ready[i])
                def_method(m, meth, ready=self.called_ready[i])(_callee_body(node[1], node[2]))
                p.call_method(meth)
        self.clear_method.provide(p.clear)
        return m


def field(term, layout, name):
    f = layout[name]
    return z3.Extract(f.offset + f.width - 1, f.offset, term)


def run(cfg, ctx):
    from transactron.utils.dependencies import DependencyContext, DependencyManager

    d2 = PipeDesign(cfg["shape"])
    nodes, links = d2.nodes, d2.links
    n = len(nodes)
    pre_ready = d2.ready
    prov = {f"ext{i}": mm for i, mm in d2.ext.items()}
    prov["clear"] = d2.clear_method
    dm = DependencyManager()
    with DependencyContext(dm):
        th = TH(d2, prov, capture=(PipelineBuilder, Pipe, BasicFifo, CircularAllocator),
                extra_inputs=list(d2.ready.values()) + list(d2.called_ready.values()), dependency_manager=dm)
    hw = ctx.use(th.hw)
    ts = hw.ts
    ploc = th.locals_of(d2.p)
    named = {k: (v[0] if isinstance(v, tuple) else v) for k, v in ploc["m"].main_module._named_submodules.items()}
    methods = {mm.name: mm for mm in th.top.transaction_manager.methods}
    comb = [methods[f"{i}_pipeline_combiner"] for i in range(n)]
    fire = [hw.b(c.run) for c in comb]
    clr = th.m["clear"].run

    class PipeRep:
        def __init__(self, pipe):
            loc = hw.rec.locals_of(pipe)
            self.reg, self.valid, self.cap = loc["reg"], loc["reg_valid"], 1

        def view(self, nxt=False):
            g = hw.nxt if nxt else hw.sig
            r = g(self.reg)
            return Seq(N(g(self.valid)), [r, r])

        def wf(self, nxt=False):
            return z3.BoolVal(True)

    def make_rep(obj):
        if isinstance(obj, Pipe):
            return PipeRep(obj)
        r = BasicFifoRep(hw, hw.rec, obj)
        r.cap = obj.depth
        return r

    conns = [make_rep(named[f"{i}_forwarder"]) for i in range(1, n)]  # conns[j] links node j -> j+1
    lay_of = [named[f"{i}_forwarder"].write.layout_in for i in range(1, n)]
    nodep = {i: make_rep(named[f"{i}_nodep"]) for i in range(n) if nodes[i][0] == "nodep_src"}
    pre_inv = [c.wf(False) for c in conns if isinstance(c, BasicFifoRep)]
    P = lambda name, post: ctx.prove(name, post, pre=pre_inv, hw=hw)
    # the connector between node j and j+1 carries exactly the live fields, each with the shape its most recent producer declared
    for j in range(n - 1):
        got = {name: f.width for name, f in lay_of[j]}
        ctx.structural(f"link{j}.layout_is_live_fields_with_producer_shapes", got == d2.spec_links[j], "finite evaluation (layout of the elaborated connector against specification-level liveness)",
                       f"connector carries {got}, specification {d2.spec_links[j]}")
    ctx.prove("init.wf", ts.at_init(z3.And(*pre_inv, *[c.view().n == 0 for c in conns])))
    for j, c in enumerate(conns):
        if isinstance(c, BasicFifoRep):
            P(f"link{j}.step.wf", c.wf(True))
    V = [c.view(False) for c in conns]
    V1 = [c.view(True) for c in conns]

    def readable(j):
        return V[j].n != 0

    def writable(j):
        c = conns[j]
        if isinstance(c, PipeRep):
            return z3.Or(V[j].n == 0, fire[j + 1])
        return V[j].n != c.cap

    for i, node in enumerate(nodes):
        kind = node[0]
        conds = []
        if i > 0:
            conds.append(readable(i - 1))
        if i < n - 1:
            conds.append(writable(i))
        if kind in ("src", "sink"):
            io = th.m[f"ext{i}"]
            willing = io.en
            P(f"node{i}.external_call_is_the_stage", io.run == fire[i])
        elif kind == "nodep_src":
            io = th.m[f"ext{i}"]
            q = nodep[i].view(False)
            willing = q.n == 1
            # the decoupling Pipe behaves as a one-slot buffer between the external call and the stage
            P(f"node{i}.decoupled_source.accepts_iff_buffer_free", z3.Implies(io.en, io.done == z3.Or(q.n == 0, fire[i])))
            q1 = nodep[i].view(True)
            expq = Seq(q.n, [q.e[0], q.e[0]]).drop(N(fire[i])).append1(io.arg(), io.run)
            P(f"node{i}.decoupled_source.buffer_step", z3.And(q1.n == z3.If(clr, N(0), expq.n), z3.Implies(z3.And(z3.Not(clr), expq.n == 1), q1.e[0] == expq.e[0])))
        elif kind == "fn":
            willing = hw.b(pre_ready[i])
        else:
            meth, rdy = d2.called[i]
            willing = hw.b(rdy)
            P(f"node{i}.called_method_runs_iff_stage_fires", hw.b(meth.run) == fire[i])
        P(f"node{i}.fires_iff_input_available_output_has_room_and_ready", fire[i] == z3.And(willing, *conds))
        # data seen / produced by the node
        gen_fields = {"src": node[1], "nodep_src": node[1], "sink": [], "fn": node[2] if kind == "fn" else [], "call": node[2] if kind == "call" else []}[kind]
        req_fields = {"src": [], "nodep_src": [], "sink": node[1], "fn": node[1] if kind == "fn" else [], "call": node[1] if kind == "call" else []}[kind]
        cm = comb[i]
        head = V[i - 1][0] if i > 0 else None
        if req_fields:
            fs = [hw.sig(cm.data_out[k]) == field(head, lay_of[i - 1], k) for k in req_fields]
            P(f"node{i}.sees_required_fields_of_oldest_item", z3.Implies(fire[i], z3.And(*fs)))
        # generated values
        genv = {}
        if kind in ("src",):
            for k in gen_fields:
                genv[k] = th.m[f"ext{i}"].arg(k)
        elif kind == "nodep_src":
            q = nodep[i].view(False)
            from amaranth.lib.data import StructLayout

            nl = named[f"{i}_nodep"].write.layout_in
            for k in gen_fields:
                genv[k] = field(q.e[0], nl, k)
        elif kind == "fn":
            SW = 8  # wide enough for the sums of these shapes; results are truncated to the declared output width
            s = z3.BitVecVal(1, SW)
            for k in node[1]:
                x = field(head, lay_of[i - 1], k)
                s = s + z3.ZeroExt(SW - x.size(), x)
            ow = out_widths(node)
            for jx, k in enumerate(gen_fields):
                genv[k] = z3.Extract(ow[k] - 1, 0, s + jx)
        elif kind == "call":
            meth, _ = d2.called[i]
            for k in gen_fields:
                genv[k] = ~field(head, lay_of[i - 1], node[1][0]) if node[1] else z3.BitVecVal(2, out_widths(node)[k])
            P(f"node{i}.called_method_gets_required_fields", z3.Implies(fire[i], z3.And(*[hw.sig(meth.data_in[k]) == field(head, lay_of[i - 1], k) for k in node[1]])))
        if kind == "sink":
            io = th.m[f"ext{i}"]
            P(f"node{i}.sink_returns_oldest_item", z3.Implies(io.run, z3.And(*[io.res(k) == field(head, lay_of[i - 1], k) for k in node[1]])))
        if i < n - 1:
            # record appended to link i
            L = lay_of[i]
            parts = []
            for name, f in L:
                v = genv[name] if name in genv else field(head, lay_of[i - 1], name)
                parts.append((f.offset, v))
            parts.sort(key=lambda t: t[0])
            if not parts:
                # an empty point: the connector carries no field, only the presence of an item
                n_exp = V[i].n - N(fire[i + 1]) + N(fire[i])
                P(f"link{i}.step.view", z3.And(V1[i].n == z3.If(clr, N(0), n_exp), z3.ULE(n_exp, N(conns[i].cap))))
                continue
            rec = z3.Concat(*reversed([v for _, v in parts])) if len(parts) > 1 else parts[0][1]
            exp = V[i].drop(N(fire[i + 1])).append1(rec, fire[i])
            cap = conns[i].cap
            P(f"link{i}.step.view", z3.And(V1[i].n == z3.If(clr, N(0), exp.n), z3.ULE(exp.n, N(cap)),
                                           *[z3.Implies(z3.And(z3.Not(clr), z3.ULT(N(t), exp.n)), V1[i].e[t] == exp.e[t]) for t in range(cap)]))
    P("clear.always_ready", z3.Implies(th.m["clear"].en, th.m["clear"].done))
    if cfg["shape"] != "two_nodes":  # a depth-1 fifo cannot be read and written in the same cycle
        ctx.cover("all_stages_fire", z3.And(*pre_inv, *fire), hw=hw)
    ctx.cover("clear_while_full", z3.And(*pre_inv, clr, V[0].n != 0), hw=hw)


def _patch_collect():
    import transactron.lib.pipeline as PL
    import inspect, textwrap

    src = textwrap.dedent(inspect.getsource(PL.PipelineBuilder.elaborate))
    old = "if k in in_layout.members.keys():"
    assert old in src
    src = src.replace(old, "if k in in_layout.members.keys() and k not in out_layout.members.keys():")
    ns = dict(PL.__dict__)
    exec(src, ns)
    PL.PipelineBuilder.elaborate = ns["elaborate"]


def _patch_clear():
    import transactron.lib.pipeline as PL
    import inspect, textwrap

    src = textwrap.dedent(inspect.getsource(PL.PipelineBuilder.elaborate))
    old = "clear_methods.append(fwd.clear)"
    assert old in src
    src = src.replace(old, "if i > 1:\n            clear_methods.append(fwd.clear)")
    ns = dict(PL.__dict__)
    exec(src, ns)
    PL.PipelineBuilder.elaborate = ns["elaborate"]


CANARIES = [
    {"name": "stage_output_shadowed_by_stale_input_field", "cfg": {"shape": "src_fn_sink"}, "patch": _patch_collect, "expect": r"link1\.step\.view"},
    {"name": "first_connector_not_cleared", "cfg": {"shape": "fifo_links"}, "patch": _patch_clear, "expect": r"link0\.step\.view"},
]
