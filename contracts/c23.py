"""C23 — multiport memories are equivalent to an ideal synchronous memory.

Product machine: the implementation and the real amaranth.lib.memory.Memory with identical init, port set, transparency
sets and granularity, driven by the same free port inputs under the assumption that no two write ports address the same
row in one cycle. Obligation: on every read port, in every cycle, impl.data == ideal.data — proved by 1-induction from a
relational invariant R = E and H:
  E: the in-class equalities found by register/memory-row correspondence (engine/sigcorr.py) — "all copies, delay
     registers and bypass registers that should be equal are equal", inductive on its own;
  H: the memory-type specific core (hand-written from the code):
     MultiReadMemory: nothing beyond E (every physical copy and its read register equals the ideal's);
     MultiportXORMemory: for every row a, ideal[a] = XOR over write ports k of eff_k[a], where eff_k[a] is the pending
       (registered last cycle) XOR-coded write of port k if it targets a, else bank k's row a; every feedback read register
       equals the bank row it will be XORed with; the read-side two-stage bypass reconstructs each bank's row;
     MultiportXORILVTMemory / MultiportOneHotILVTMemory: a third machine is added to the product — a ghost live-value
       table T (a real amaranth Memory of last-writer indices, written with the port index by every enabled write, read
       non-transparently by every read port).  H = (inner table implementation ≡ T) ∧ (outer): for the XOR-coded inner
       table the XOR invariant above with T as the ideal memory; for the one-hot-coded inner table, for every row a bank
       T[a]'s effective code (pending feedback write included) is marked "newer than" every other bank's code
       (pairwise: code_k[i] == ~code_i[k-1] for i < k), the feedback read registers hold the other banks' codes at the
       pending write address, the second bypass stage is redundant, and the one-hot output names T's registered read
       value; outer: bank T[a] holds ideal[a] for every row a, the bypass registers are last cycle's write, and the
       registered bank data selected by the table output equals the ideal read register.
     Write granularity on the ILVT memories is a recorded known finding (the live-value table is per row, not per granule):
     those configurations are expected to fail and a trace from reset is attached.
"""

import itertools

import z3
import amaranth.lib.memory as amem
from amaranth import Elaboratable, Module, Signal
from transactron.utils.amaranth_ext import memory as M

from engine.hw import HW
from engine.sigcorr import Correspondence
from spec.seq import N

PROPERTY = "C23"
LEVEL = "proof"
TECHNIQUE = "product machine of the real multiport memory and the real amaranth.lib.memory.Memory on the elaborated netlist; relational invariant with ghost live-value tables and signal correspondence, one-step induction discharged by z3; the two ILVT memories without write ports only by bounded search from reset"
ASSUMPTIONS = [
    "caller obligation from the property statement: no two write ports (with a non-zero enable) address the same row in one cycle; addresses below depth",
    "(depth, width, read/write port counts, init, transparency subsets, granularity where accepted) swept as listed; unbounded in inputs and history length",
    "bounded part: the two ILVT memories without any write port (a ROM) are only searched from reset to depth 8 (no contract of this module describes the residual state of an empty live-value table); listed under bounded_parts, not counted as proved",
]
LEVEL_NOTE = ("Trusted: Amaranth 0.5.9 elaboration and the NIR cell semantics encoded in engine/nir2smt.py (cross-checked on every run against Amaranth's Python simulator), z3 5.1.0; the ideal memory is the real amaranth.lib.memory.Memory "
              "instantiated next to the implementation (product machine). Bounded: the configuration sweep listed in the evidence; the ILVT memories with zero write ports are bounded-search only (bounded_parts). "
              "Unbounded: input valuations and history length (one-step induction over a relational invariant with ghost live-value tables). Two known findings (ILVT + granularity; ROM with non-empty init) are listed in known_findings.json.")


class Product(Elaboratable):
    def __init__(self, kind, depth, width, nr, nw, transp, gran, init):
        mk = {"multiread": M.MultiReadMemory, "xor": M.MultiportXORMemory, "xor_ilvt": M.MultiportXORILVTMemory, "onehot_ilvt": M.MultiportOneHotILVTMemory}[kind]
        self.kind = kind
        self.impl = mk(shape=width, depth=depth, init=list(init))
        self.ideal = amem.Memory(shape=width, depth=depth, init=list(init))
        self.table = None
        if kind in ("xor_ilvt", "onehot_ilvt"):
            from amaranth.utils import bits_for

            # ghost component: the ideal "index of the write port that wrote row a last" table
            self.table = amem.Memory(shape=max(1, bits_for(nw - 1)), depth=depth, init=[])
            self.tw = [self.table.write_port() for _ in range(nw)]
            self.tr = [self.table.read_port() for _ in range(nr)]
        self.w = [self.impl.write_port(granularity=gran) if gran else self.impl.write_port() for _ in range(nw)]
        self.iw = [self.ideal.write_port(granularity=gran) if gran else self.ideal.write_port() for _ in range(nw)]
        self.r, self.ir = [], []
        for i in range(nr):
            tf = [j for j in range(nw) if (i, j) in transp]
            self.r.append(self.impl.read_port(transparent_for=[self.w[j] for j in tf]))
            self.ir.append(self.ideal.read_port(transparent_for=[self.iw[j] for j in tf]))

    def elaborate(self, platform):
        m = Module()
        m.submodules.impl = self.impl
        m.submodules.ideal = self.ideal
        for a, b in zip(self.w, self.iw):
            m.d.comb += [b.addr.eq(a.addr), b.data.eq(a.data), b.en.eq(a.en)]
        for a, b in zip(self.r, self.ir):
            m.d.comb += [b.addr.eq(a.addr), b.en.eq(a.en)]
        if self.table is not None:
            m.submodules.ghost_table = self.table
            for k, (a, b) in enumerate(zip(self.w, self.tw)):
                m.d.comb += [b.addr.eq(a.addr), b.data.eq(k), b.en.eq(a.en.any())]
            for a, b in zip(self.r, self.tr):
                m.d.comb += [b.addr.eq(a.addr), b.en.eq(a.en)]
        return m

    def inputs(self):
        out = []
        for p in self.w:
            out += [p.addr, p.data, p.en]
        for p in self.r:
            out += [p.addr, p.en]
        return out

    def outputs(self):
        return [p.data for p in self.r] + [p.data for p in self.ir] + ([p.data for p in self.tr] if self.table is not None else [])


def configs(tier):
    out = []
    # MultiReadMemory: 0/1 write port, granularity, transparency subsets, init
    for depth, width in ((2, 2), (3, 2)) if tier == "quick" else ((1, 2), (2, 1), (3, 2), (4, 4)):
        for nr in (1, 2):
            for nw in (0, 1):
                for gran in ((None, 1) if width >= 2 else (None,)):
                    if nw == 0 and gran:
                        continue
                    for transp in ("none", "all", "first"):
                        if nw == 0 and transp != "none":
                            continue
                        for init in ("empty", "nonempty"):
                            out.append({"kind": "multiread", "depth": depth, "width": width, "nr": nr, "nw": nw, "gran": gran, "transp": transp, "init": init})
    xs = [(2, 1, 1, 2), (3, 2, 1, 2), (2, 2, 2, 2)] if tier == "quick" else [(2, 1, 1, 2), (3, 2, 1, 2), (2, 2, 2, 2), (4, 3, 1, 2), (3, 2, 1, 3), (2, 2, 2, 3), (3, 1, 2, 1), (4, 2, 1, 1)]
    for depth, width, nr, nw in xs:
        for transp in ("none", "all", "diag"):
            for init in ("empty", "nonempty"):
                out.append({"kind": "xor", "depth": depth, "width": width, "nr": nr, "nw": nw, "gran": None, "transp": transp, "init": init})
    ilvts = [(2, 2, 1, 2), (3, 2, 1, 2), (4, 1, 1, 2), (3, 2, 1, 3)] if tier == "quick" else [(2, 2, 1, 2), (3, 2, 1, 2), (4, 1, 1, 2), (4, 3, 2, 2), (3, 2, 1, 3), (2, 2, 2, 3), (5, 2, 1, 2)]
    for depth, width, nr, nw in ilvts:
        for transp in ("none", "all", "diag"):
            for init in ("empty", "nonempty"):
                for gran in (None, 1):
                    if gran and (transp == "diag" or init == "nonempty"):
                        continue
                    out.append({"kind": "xor_ilvt", "depth": depth, "width": width, "nr": nr, "nw": nw, "gran": gran, "transp": transp, "init": init})
                    out.append({"kind": "onehot_ilvt", "depth": depth, "width": width, "nr": nr, "nw": nw, "gran": gran, "transp": transp, "init": init})
    # degenerate port counts the constructors accept: a single write port, and no write port at all (a ROM)
    for kind in ("xor", "xor_ilvt", "onehot_ilvt"):
        for nw in (0, 1):
            if kind == "onehot_ilvt" and nw == 1:
                continue  # (the one-hot code of a single bank is empty: covered by the xor_ilvt single-port case of the shared base class only)
            for init in ("empty", "nonempty"):
                out.append({"kind": kind, "depth": 3, "width": 2, "nr": 1 if tier == "quick" else 2, "nw": nw, "gran": None, "transp": "all" if nw else "none", "init": init})
    return out


def transp_set(name, nr, nw):
    if name == "none":
        return set()
    if name == "all":
        return {(i, j) for i in range(nr) for j in range(nw)}
    if name == "first":
        return {(0, j) for j in range(nw)}
    if name == "diag":
        return {(i, j) for i in range(nr) for j in range(nw) if (i + j) % 2 == 0}
    raise ValueError(name)


def run(cfg, ctx):
    depth, width, nr, nw = cfg["depth"], cfg["width"], cfg["nr"], cfg["nw"]
    init = [] if cfg["init"] == "empty" else [(3 * i + 1) % (1 << width) for i in range(depth)]
    prod = Product(cfg["kind"], depth, width, nr, nw, transp_set(cfg["transp"], nr, nw), cfg["gran"], init)
    hw = HW(prod, prod.inputs(), prod.outputs(), capture=(M.BaseMultiportMemory,))
    ctx.use(hw)
    inr = lambda a: z3.ULT(N(a), N(depth))
    A = []
    wen = [hw.sig(p.en) for p in prod.w]
    wad = [hw.sig(p.addr) for p in prod.w]
    for j in range(nw):
        if wad[j] is not None:
            A.append(inr(wad[j]))
        for k in range(j):
            same = (wad[j] == wad[k]) if wad[j] is not None else z3.BoolVal(True)
            A.append(z3.Not(z3.And(wen[j] != 0, wen[k] != 0, same)))
    for p in prod.r:
        a = hw.sig(p.addr)
        if a is not None:
            A.append(inr(a))
    Aall = z3.And(*A) if A else z3.BoolVal(True)
    if nw == 0 and cfg["kind"] in ("xor_ilvt", "onehot_ilvt"):
        # A live-value-table memory without write ports (a ROM): no contract of this module describes its residual state
        # (address registers of an empty table), so this degenerate configuration is only searched from reset —
        # bounded, reported under bounded_parts and never counted as proved.
        mismatch = z3.Or(*[hw.sig(prod.r[i].data) != hw.sig(prod.ir[i].data) for i in range(nr)])
        ctx.bmc("from_reset.read_data_equals_ideal_memory[zero_write_ports]", hw, mismatch, assume=Aall, k=8)
        return
    if cfg["kind"] in ("xor_ilvt", "onehot_ilvt") and nw >= 1:
        # structural precondition of the ILVT argument: an entry of the live-value table can name every write port
        # (binary index for the XOR-based table, one code bit per other port for the one-hot table)
        from amaranth import Shape

        inner = hw.rec.locals_of(prod.impl)["ilvt"]
        ew = Shape.cast(inner.shape).width
        need = max(0, (nw - 1).bit_length()) if cfg["kind"] == "xor_ilvt" else nw - 1
        ok = ew >= need
        ctx.structural("ilvt_table_entry_can_name_every_write_port", ok, "finite evaluation (shape of the elaborated live-value table)",
                       f"table entry has {ew} bits, {nw} write ports need {need}")
        if not ok:
            mismatch = z3.Or(*[hw.sig(prod.r[i].data) != hw.sig(prod.ir[i].data) for i in range(nr)])
            ctx.bmc("from_reset.read_data_equals_ideal_memory", hw, mismatch, assume=Aall, k=6)
            return
    corr = Correspondence(hw, assume=Aall)
    ctx.notes.append(f"correspondence {cfg}: {corr.summary()}")
    E0, E1 = corr.E(False), corr.E(True)
    H0, H1 = core_invariant(cfg, prod, hw, corr)
    pre = [E0, H0]
    ctx.prove("init.R", hw.ts.at_init(z3.And(E0, H0)))
    ctx.prove("step.inv.E", E1, pre=[E0], assume=A, hw=hw, invariant=True)
    ctx.prove("step.inv.H", H1, pre=pre, assume=A, hw=hw, invariant=True)
    for i in range(nr):
        ctx.prove(f"read{i}.data_equals_ideal_memory", hw.sig(prod.r[i].data) == hw.sig(prod.ir[i].data), pre=pre, assume=A, hw=hw)
    if any(r["verdict"] == "violated" for r in ctx.records):
        # an invariant obligation failed: look for an actual input sequence from reset on which a read port differs from the ideal memory
        mismatch = z3.Or(*[hw.sig(prod.r[i].data) != hw.sig(prod.ir[i].data) for i in range(nr)])
        tag = "[granularity]" if cfg["gran"] else "[zero_write_ports]" if (nw == 0 and cfg["kind"] != "multiread") else ""
        ctx.bmc("from_reset.read_data_equals_ideal_memory" + tag, hw, mismatch, assume=Aall, k=6)
        for r in ctx.records:
            if r["verdict"] == "violated" and tag and not r["name"].endswith(tag):
                r["name"] += tag
    ctx.cover("R_and_assumptions", z3.And(*pre, Aall), hw=hw)
    if nw and nw <= depth:
        ctx.cover("all_ports_active", z3.And(*pre, Aall, *[e != 0 for e in wen], *[hw.b(p.en) for p in prod.r]), hw=hw)


def rd(rows, a):
    """rows[a] for a symbolic address known to be in range"""
    r = rows[-1]
    for i in reversed(range(len(rows) - 1)):
        r = z3.If(a == i, rows[i], r)
    return r


def named_submodules(tmodule):
    mm = getattr(tmodule, "main_module", tmodule)
    return {k: (v[0] if isinstance(v, tuple) else v) for k, v in mm._named_submodules.items()}


def one(keys, what):
    if not keys:
        raise RuntimeError(f"state element not found: {what}")
    return keys[0]


def core_invariant(cfg, prod, hw, corr):
    if cfg["kind"] == "multiread" or cfg["nw"] == 0:
        # no write port: nothing but the signal correspondence (implementation register == ideal register) is needed
        return z3.BoolVal(True), z3.BoolVal(True)
    if cfg["kind"] == "xor":
        return xor_invariant(cfg, prod.impl, prod.r, prod.ir, prod.ideal, hw, transp_set(cfg["transp"], cfg["nr"], cfg["nw"]))
    if cfg["kind"] == "xor_ilvt":
        loc = hw.rec.locals_of(prod.impl)
        inner = loc["ilvt"]
        Hx0, Hx1 = xor_invariant(cfg, inner, loc["ilvt_read_ports"], prod.tr, prod.table, hw, set())
        Ho0, Ho1 = ilvt_outer_invariant(cfg, prod, hw)
        return z3.And(Hx0, Ho0), z3.And(Hx1, Ho1)
    if cfg["kind"] == "onehot_ilvt":
        loc = hw.rec.locals_of(prod.impl)
        inner = loc["ilvt"]
        Hi0, Hi1 = onehot_table_invariant(cfg, inner, loc["ilvt_read_ports"], prod, hw)
        Ho0, Ho1 = ilvt_outer_invariant(cfg, prod, hw)
        return z3.And(Hi0, Ho0), z3.And(Hi1, Ho1)
    raise NotImplementedError(cfg["kind"])


def onehot_table_invariant(cfg, inner, inner_rports, prod, hw):
    """H for OneHotCodedILVT against the ghost table T: bank T[a]'s (effective) code marks it newer than every other
    bank at row a; the feedback read registers hold the other banks' codes at the pending write address; the read side
    reconstructs each bank's code at the registered read address; the one-hot output names the ghost table's
    registered read value."""
    ts = hw.ts
    depth = inner.depth
    W, R = len(inner.write_ports), len(inner.read_ports)
    loc = hw.rec.locals_of(inner)
    named = named_submodules(loc["m"])
    banks = [named[f"bank_{k}"] for k in range(W)]
    C_mem = [ts.memory_of(banks[k].read_ports[0].data) for k in range(W)]
    e1_s = [banks[k].write_ports[0].en for k in range(W)]
    a1_s = [banks[k].write_ports[0].addr for k in range(W)]
    d1_s = loc["write_data_sync"]
    a2_s, e2_s, x2_s = loc["write_addr_bypass"], loc["write_en_bypass"], loc["write_data_bypass"]
    ra_s, ren_s = loc["read_addr_bypass"], loc["read_en_bypass"]
    fb = {}
    for j in range(W):
        for k in range(W):
            if j != k:
                port = banks[j].read_ports[(R + k - 1) if j < k else (R + k)]
                fb[(j, k)] = ts.readport_key(port.data)
    rp_read = [[ts.readport_key(banks[k].read_ports[r].data) for r in range(R)] for k in range(W)]
    table_mem = ts.memory_of(prod.tr[0].data)
    table_rp = [ts.readport_key(p.data) for p in prod.tr]
    zero_a = z3.BitVecVal(0, 1)
    bitv = lambda x, i: z3.Extract(i, i, x)

    def newer(code, k, i):
        """bank k is marked newer than bank i (codes: list of per-bank code terms)"""
        if i < k:
            return bitv(code[k], i) == ~bitv(code[i], k - 1)
        return bitv(code[k], i - 1) == bitv(code[i], k)

    def H(nxt):
        st = ts.next if nxt else ts.state
        g = (lambda s: hw.nxt(s)) if nxt else (lambda s: hw.sig(s))
        gc = (lambda s: ts.primed(hw.sig(s))) if nxt else (lambda s: hw.sig(s))
        rows = lambda midx: ts.mem_next_rows[midx] if nxt else ts.mem_rows(midx)
        inr = lambda a: z3.ULT(N(a), N(depth))
        e1 = [g(e1_s[k]) == 1 for k in range(W)]
        a1 = [g(a1_s[k]) if len(a1_s[k]) else zero_a for k in range(W)]
        low = lambda x: z3.Extract(W - 2, 0, x)  # the code signals are declared W bits wide, the banks store W-1
        d1 = [low(gc(d1_s[k])) for k in range(W)]
        C = [rows(C_mem[k]) for k in range(W)]
        T = rows(table_mem)
        cs = []
        for k in range(W):
            cs.append(inr(a1[k]))
            for j in range(W):
                if j != k:
                    cs.append(z3.Implies(e1[k], st[fb[(j, k)]] == rd(C[j], a1[k])))
                if j < k:
                    cs.append(z3.Not(z3.And(e1[j], e1[k], a1[j] == a1[k])))
        for k in range(W):
            a2 = g(a2_s[k]) if len(a2_s[k]) else zero_a
            cs.append(z3.Implies(g(e2_s[k]) == 1, z3.And(inr(a2), low(g(x2_s[k])) == rd(C[k], a2))))
        for a in range(depth):
            eff = [z3.If(z3.And(e1[k], a1[k] == a), d1[k], C[k][a]) for k in range(W)]
            for t in range(W):
                cs.append(z3.Implies(N(T[a]) == t, z3.And(*[newer(eff, t, j) for j in range(W) if j != t])))
            cs.append(z3.ULT(N(T[a]), N(W)))
        for r in range(R):
            ren = g(ren_s[r]) == 1
            ra = g(ra_s[r]) if len(ra_s[r]) else zero_a
            cs.append(z3.Implies(ren, inr(ra)))
            for k in range(W):
                a2 = g(a2_s[k]) if len(a2_s[k]) else zero_a
                byp = z3.If(z3.And(ra == a2, ren, g(e2_s[k]) == 1), low(g(x2_s[k])), st[rp_read[k][r]])
                cs.append(z3.Implies(ren, byp == rd(C[k], ra)))
                cs.append(z3.Implies(ren, st[rp_read[k][r]] == rd(C[k], ra)))  # the second bypass stage is redundant
            out_inner = gc(inner_rports[r].data)
            trp = st[table_rp[r]]
            onehot = z3.BitVecVal(0, W)
            for t in reversed(range(W)):
                onehot = z3.If(N(trp) == t, z3.BitVecVal(1 << t, W), onehot)
            cs.append(out_inner == onehot)
        return z3.And(*cs)

    return H(False), H(True)


def ilvt_outer_invariant(cfg, prod, hw):
    """H for MultiportILVTMemory given the ghost table T: for every row a, T[a] names a bank and that bank's row a is the
    ideal row; each read port's data output equals the ideal memory's registered read data."""
    ts = hw.ts
    impl = prod.impl
    depth = impl.depth
    W, R = len(impl.write_ports), len(impl.read_ports)
    loc = hw.rec.locals_of(impl)
    named = named_submodules(loc["m"])
    banks = [named[f"bank_{k}"] for k in range(W)]
    bank_mem = [ts.memory_of(banks[k].read_ports[0].data) for k in range(W)]
    ideal_mem = ts.memory_of(prod.ir[0].data)
    ideal_rp = [ts.readport_key(p.data) for p in prod.ir]
    table_mem = ts.memory_of(prod.tr[0].data)

    def H(nxt):
        st = ts.next if nxt else ts.state
        rows = lambda midx: ts.mem_next_rows[midx] if nxt else ts.mem_rows(midx)
        T = rows(table_mem)
        ideal_rows = rows(ideal_mem)
        cs = []
        for a in range(depth):
            cs.append(z3.ULT(N(T[a]), N(W)))
            sel = rows(bank_mem[W - 1])[a]
            for k in reversed(range(W - 1)):
                sel = z3.If(N(T[a]) == k, rows(bank_mem[k])[a], sel)
            cs.append(ideal_rows[a] == sel)
        for r in range(R):
            out_impl = ts.primed(hw.sig(prod.r[r].data)) if nxt else hw.sig(prod.r[r].data)
            cs.append(out_impl == st[ideal_rp[r]])
        return z3.And(*cs)

    return H(False), H(True)


def xor_invariant(cfg, impl, rports, ideal_rports, ideal, hw, transp):
    ts = hw.ts
    depth = impl.depth
    W, R = len(impl.write_ports), len(impl.read_ports)
    loc = hw.rec.locals_of(impl)
    named = named_submodules(loc["m"])
    blocks = [named[f"read_block_{k}"] for k in range(W)]
    e1_s = [blocks[k].write_ports[0].en for k in range(W)]
    wx_s = [blocks[k].write_ports[0].data for k in range(W)]  # write_xor_k (combinational)
    a1_s, d1_s = loc["write_regs_addr"], loc["write_regs_data"]
    ren_s = loc["read_en_bypass"]
    Ck_mem = [ts.memory_of(blocks[k].read_ports[0].data) for k in range(W)]
    rpk = [[ts.readport_key(blocks[k].read_ports[r].data) for r in range(R)] for k in range(W)]
    fb_rp = {}
    for j in range(W):
        for i in range(W - 1):
            mem = named[f"memory_{j}_{i}"]
            fb_rp[(j, i)] = ts.readport_key(mem.read_ports[0].data)
    ideal_mem = ts.memory_of(ideal_rports[0].data)
    ideal_rp = [ts.readport_key(p.data) for p in ideal_rports]
    ra_k = [one(hw.regs_fed_by(rports[r].addr), "read_addr_bypass") if len(rports[r].addr) else None for r in range(R)]
    a2_k = [one(hw.regs_fed_by(a1_s[k]), "write_addr_bypass") if len(a1_s[k]) else None for k in range(W)]
    x2_k = [one(hw.regs_fed_by(wx_s[k]), "write_data_bypass") for k in range(W)]
    e2_k = [one([kk for kk in hw.regs_fed_by(e1_s[k])], "write_en_bypass") for k in range(W)]
    zero_a = z3.BitVecVal(0, 1)

    def H(nxt):
        st = ts.next if nxt else ts.state
        g = (lambda s: hw.nxt(s)) if nxt else (lambda s: hw.sig(s))
        rows = lambda midx: ts.mem_next_rows[midx] if nxt else ts.mem_rows(midx)
        e1 = [g(e1_s[k]) == 1 for k in range(W)]
        a1 = [g(a1_s[k]) if len(a1_s[k]) else zero_a for k in range(W)]
        d1 = [g(d1_s[k]) for k in range(W)]
        C = [rows(Ck_mem[k]) for k in range(W)]
        inr = lambda a: z3.ULT(N(a), N(depth))
        cs = []
        X = []
        for k in range(W):
            x = d1[k]
            for j in range(W):
                if j == k:
                    continue
                i = k - 1 if k > j else k
                x = x ^ st[fb_rp[(j, i)]]
                # while port k has a pending write, the feedback read register holds bank j's row at k's pending address
                cs.append(z3.Implies(e1[k], st[fb_rp[(j, i)]] == rd(C[j], a1[k])))
            X.append(x)
            cs.append(inr(a1[k]))
        for j in range(W):
            for k in range(j):
                cs.append(z3.Not(z3.And(e1[j], e1[k], a1[j] == a1[k])))
        eff = lambda k, a: z3.If(z3.And(e1[k], a1[k] == a), X[k], C[k][a])
        ideal_rows = rows(ideal_mem)
        for a in range(depth):
            acc = eff(0, a)
            for k in range(1, W):
                acc = acc ^ eff(k, a)
            cs.append(ideal_rows[a] == acc)
        for r in range(R):
            ren = g(ren_s[r]) == 1
            ra = st[ra_k[r]] if ra_k[r] is not None else zero_a
            cs.append(z3.Implies(ren, inr(ra)))
            for k in range(W):
                a2 = st[a2_k[k]] if a2_k[k] is not None else zero_a
                ds = z3.If(z3.And(ra == a2, ren, st[e2_k[k]] == 1), st[x2_k[k]], st[rpk[k][r]])
                cs.append(z3.Implies(ren, ds == rd(C[k], ra)))
            # the data output (a function of registers only) equals the ideal memory's registered read data
            out_impl = ts.primed(hw.sig(rports[r].data)) if nxt else hw.sig(rports[r].data)
            cs.append(out_impl == st[ideal_rp[r]])
        return z3.And(*cs)

    return H(False), H(True)


def _src_patch(cls, old, new):
    """re-define cls.elaborate from its own source text with one expression replaced"""
    import inspect, textwrap

    def patch():
        src = textwrap.dedent(inspect.getsource(cls.elaborate))
        assert src.count(old) == 1, (cls.__name__, old)
        ns = dict(M.__dict__)
        exec(src.replace(old, new), ns)
        cls.elaborate = ns["elaborate"]

    return patch


_base = {"gran": None, "init": "nonempty"}
CANARIES = [
    {"name": "multiread_transparency_of_every_port", "cfg": {**_base, "kind": "multiread", "depth": 3, "width": 2, "nr": 2, "nw": 1, "transp": "diag"},
     "patch": _src_patch(M.MultiReadMemory, "physical_write_port and write_port in port.transparent_for else", "physical_write_port and port.transparent_for == () else"),
     "expect": r"read\d\.data_equals|step\.inv"},
    {"name": "xor_transparency_dropped", "cfg": {**_base, "kind": "xor", "depth": 3, "width": 2, "nr": 1, "nw": 2, "transp": "all"},
     "patch": _src_patch(M.MultiportXORMemory, "if write_port in self.read_ports[idx].transparent_for:", "if False:"),
     "expect": r"step\.inv\.H|read\d\.data_equals"},
    {"name": "xor_second_bypass_stage_dropped", "cfg": {**_base, "kind": "xor", "depth": 3, "width": 2, "nr": 1, "nw": 2, "transp": "none"},
     "patch": _src_patch(M.MultiportXORMemory, "(read_addr_bypass == write_addr_bypass) & read_en_bypass[idx] & write_en_bypass,", "Const(0),"),
     "expect": r"step\.inv\.H|read\d\.data_equals"},
    {"name": "xor_feedback_reads_own_address", "cfg": {**_base, "kind": "xor", "depth": 2, "width": 2, "nr": 1, "nw": 3, "transp": "none"},
     "patch": _src_patch(M.MultiportXORMemory, "physical_read_port.addr.eq(self.write_ports[idx].addr)]", "physical_read_port.addr.eq(self.write_ports[index].addr)]"),
     "expect": r"step\.inv|read\d\.data_equals"},
    {"name": "ilvt_bypass_ignores_enable", "cfg": {**_base, "kind": "xor_ilvt", "depth": 3, "width": 2, "nr": 1, "nw": 2, "transp": "all"},
     "patch": _src_patch(M.MultiportILVTMemory, "((write_addr_bypass[idx] == read_addr_bypass) & write_en_bypass[idx], write_data_bypass[idx])", "((write_addr_bypass[idx] == read_addr_bypass), write_data_bypass[idx])"),
     "expect": r"step\.inv\.H|read\d\.data_equals"},
    {"name": "onehot_feedback_not_inverted", "cfg": {**_base, "kind": "onehot_ilvt", "depth": 3, "width": 2, "nr": 1, "nw": 2, "transp": "none"},
     "patch": _src_patch(M.OneHotCodedILVT, "~(m.submodules[f\"bank_{i}\"].read_ports[idx - 1].data[index - 1])", "(m.submodules[f\"bank_{i}\"].read_ports[idx - 1].data[index - 1])"),
     "expect": r"step\.inv\.H|read\d\.data_equals"},
    {"name": "onehot_feedback_reads_wrong_address", "cfg": {**_base, "kind": "onehot_ilvt", "depth": 3, "width": 2, "nr": 1, "nw": 3, "transp": "none"},
     "patch": _src_patch(M.OneHotCodedILVT, "k = i + 1 if index < i + 1 else i", "k = i + 1 if index <= i + 1 and i + 1 < len(self.write_ports) else i"),
     "expect": r"step\.inv\.H|read\d\.data_equals"},
]
