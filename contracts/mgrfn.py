"""Function contracts on the data structures the TransactionManager computes for one design — checked on the values the
real functions returned during the elaboration of that design (captured from the frame of TransactionManager.elaborate,
no /repo hook), against the spec-level oracle of designs/oracle.py:

  MethodMap.__init__                      [C04]  methods_by_transaction[t] = static call tree of t; transactions_by_method
                                                 is its inverse; one CallInfo per call path from t to m
  TransactionManager._relations           [C02]  every add_conflict / schedule_before of the design whose two ends are called
                                                 (or are transactions) is in the returned list, with its priority and
                                                 conflict flag
  TransactionManager._conflict_graph      [C01]  cgr symmetric; SpecConf(t, u) => u in cgr[t]               (soundness;
                                                 SpecConf here = Oracle.direct_method_conflict: the double activation is
                                                 between a call reached from t and a call reached from u, not one that
                                                 an enclosing transaction of a nested t or u causes by itself)
                                          [C07]  u in cgr[t], u != t => SpecConf(t, u) or t, u can never both be
                                                 enabled                                                   (tightness)
                                          [C08]  porder is a bijection onto 0..n-1 that puts hi before lo for every
                                                 prioritised conflict, schedule_before and nesting, after lifting
These localise an end-to-end failure to a named function; the end-to-end obligations on the netlist do not depend on
them.  They are decided per design by evaluating finite sets and small SAT queries (not by SMT over the netlist), so they
are recorded with their own backend label.  Designs whose conflict graph contains transactions that do not exist at the
spec level (condition()/simultaneous merges) are outside these contracts."""

import itertools

BACKEND = "finite evaluation of the function's returned value against the spec-level oracle (z3 SAT for SpecConf)"


def manager_contracts(pid, ctx, b, o):
    from transactron.core.manager import TransactionManager

    try:
        loc = b.hw.rec.locals_of(b.manager, "elaborate")
    except KeyError:
        return
    method_map, cgr, porder = loc.get("method_map"), loc.get("cgr"), loc.get("porder")
    if method_map is None or cgr is None or porder is None:
        return
    d = b.d
    body_of = {name: getattr(bi.obj, "_body", bi.obj) for name, bi in d.bodies.items()}
    name_of = {id(v): k for k, v in body_of.items()}
    tnames = set(o.transactions)
    if {name_of.get(id(t)) for t in cgr} != tnames or any(d.bodies[t].branch_of is not None for t in tnames):
        ctx.notes.append("manager function contracts: not applicable (merged or internal transactions in the conflict graph)")
        return
    S = lambda name, ok, detail=None: ctx.structural(name, ok, BACKEND, detail)
    adj = {name_of[id(t)]: {name_of[id(u)] for u in us} for t, us in cgr.items()}

    if pid == "C02":
        rels = TransactionManager._relations(method_map)  # pure: the manager itself calls it inside _conflict_graph
        got = {(name_of.get(id(r.start)), name_of.get(id(r.end)), r.priority.name, bool(r.conflict)) for r in rels}
        live = {name_of.get(id(x)) for x in method_map.methods_and_transactions}
        prio = {"U": "UNDEFINED", "L": "LEFT", "R": "RIGHT"}
        for rel in b.spec.get("relations", []):
            a = rel[1] if rel[1] in d.bodies else d.resolve(rel[1])
            bb = rel[2] if rel[2] in d.bodies else d.resolve(rel[2])
            if a in live and bb in live:
                want = (a, bb, prio[rel[3]], True) if rel[0] == "conflict" else (a, bb, "LEFT", False)
                S(f"_relations.contains[{rel[0]}({rel[1]},{rel[2]},{rel[3]})]", want in got, f"missing {want}; returned {sorted(map(str, got))[:12]}")
    elif pid == "C04":
        for t in sorted(tnames):
            got = {name_of.get(id(m)) for m in method_map.methods_by_transaction[body_of[t]]}
            S(f"MethodMap.methods_by_transaction[{t}]_is_static_call_tree", got == set(o.tree(t)), f"got {sorted(map(str, got))}, call tree {o.tree(t)}")
            paths = {}
            for p in o.call_paths(t):
                paths[p[-1].target] = paths.get(p[-1].target, 0) + 1
            for m in o.tree(t):
                n = len(method_map.info_by_call[(body_of[t], body_of[m])])
                S(f"MethodMap.info_by_call[{t},{m}]_one_per_call_path", n == paths.get(m, 0), f"{n} CallInfo, {paths.get(m, 0)} call paths")
        for m in o.methods:
            got = {name_of.get(id(t)) for t in method_map.transactions_by_method.get(body_of[m], [])}
            exp = {t for t in tnames if m in o.tree(t)}
            if got or exp:
                S(f"MethodMap.transactions_by_method[{m}]_is_inverse", got == exp, f"got {sorted(map(str, got))}, expected {sorted(exp)}")
    elif pid == "C01":
        S("_conflict_graph.cgr_symmetric", all(t in adj[u] for t in adj for u in adj[t]))
        pairs, _ = o.explicit_conflicts()
        for t, u in itertools.combinations(sorted(tnames), 2):
            if o.direct_method_conflict(t, u) or frozenset((t, u)) in pairs:
                S(f"_conflict_graph.sound[{t},{u}]", u in adj[t], "the calls of the two transactions can double-activate an exclusive method (or the two are related by add_conflict) but they are not adjacent in cgr")
    elif pid == "C07":
        pairs, _ = o.explicit_conflicts()
        for t in sorted(adj):
            for u in sorted(adj[t]):
                if t < u:
                    ok = o.direct_method_conflict(t, u) or frozenset((t, u)) in pairs or not o.can_both_be_enabled(t, u)
                    S(f"_conflict_graph.tight[{t},{u}]", ok, "adjacent in cgr although neither a shared exclusive method on non-exclusive paths nor add_conflict relates them")
    elif pid == "C08":
        po = {name_of[id(t)]: v for t, v in porder.items() if id(t) in name_of}
        S("_conflict_graph.porder_is_bijection", sorted(po.values()) == list(range(len(tnames))) and set(po) == tnames, str(po))
        _, prio = o.explicit_conflicts()
        for hi, lo in sorted(prio):
            if (lo, hi) not in prio and hi in po and lo in po:
                S(f"_conflict_graph.porder_respects_priority[{hi}>{lo}]", po[hi] < po[lo], str(po))
        for rel in b.spec.get("relations", []):
            if rel[0] == "before":
                a = rel[1] if rel[1] in d.bodies else d.resolve(rel[1])
                bb = rel[2] if rel[2] in d.bodies else d.resolve(rel[2])
                for ta in o.transactions_for(a):
                    for tb in o.transactions_for(bb):
                        if ta != tb:
                            S(f"_conflict_graph.porder_respects_schedule_before[{ta}<{tb}]", po[ta] < po[tb], str(po))
        for name, bi in d.bodies.items():
            if bi.parent is not None:
                for ta in o.transactions_for(bi.parent.name):
                    for tb in o.transactions_for(name):
                        if ta != tb:
                            S(f"_conflict_graph.porder_respects_nesting[{ta}<{tb}]", po[ta] < po[tb], str(po))
    ctx.functions.update({("transactron.core.manager.MethodMap.__init__", "transactron/core/manager.py"), ("transactron.core.manager.TransactionManager._conflict_graph", "transactron/core/manager.py"),
                          ("transactron.core.manager.TransactionManager._relations", "transactron/core/manager.py")})
