"""C14 — FIFO and BasicFifo behave as bounded queues.

Contract: representation invariant wf, abstraction view() : state -> bounded sequence, and per method
requires/ensures against QueueSpec; discharged by one-step induction on the netlist of the real code."""

import z3
import amaranth.lib.fifo
from transactron.lib import BasicFifo, FIFO
from transactron.lib.allocators import CircularAllocator

from engine.th import TH
from spec.seq import N, Seq, select, lt, le, nmod

PROPERTY = "C14"
HISTORY_LEMMAS = ['queue_history', 'clear_empties', 'read_first_same', 'idle_keeps']  # lemmas/History.lean: one-cycle contracts => history-level statement (Lean 4)
LEVEL = "proof"
ASSUMPTIONS = [
    "configurations swept: depth and payload layout as listed in coverage.configuration_list (bounded in the Python-level parameters, unbounded in inputs and history length)",
    "FIFO wraps amaranth.lib.fifo.SyncFIFO (a dependency); its netlist is part of the proof, not assumed",
]

LAYOUTS = {
    "d1": [("data", 1)],
    "d2": [("data", 2)],
    "a1b2": [("a", 1), ("b", 2)],
}


def configs(tier):
    out = []
    depths = [1, 2, 3, 4, 5, 6] if tier == "quick" else [1, 2, 3, 4, 5, 6, 7, 8, 9, 10, 11, 12, 16, 33, 65]
    for kind in ("basic", "fifo"):
        for d in depths:
            lays = ["d2"] if (tier == "quick" and d not in (2, 3)) else ["d1", "d2", "a1b2"]
            for lay in lays:
                out.append({"kind": kind, "depth": d, "layout": lay})
    return out


def _queue_obligations(ctx, hw, pre, view0, view1, depth, m, has_peek, has_clear, arg):
    A = []
    n0 = view0.n
    rd, wr = m["read"], m["write"]
    # --- requires/ensures of each method -----------------------------------------------------
    ctx.prove("read.ready", z3.Implies(rd.en, rd.done == (n0 != 0)), pre=pre, assume=A, hw=hw)
    ctx.prove("read.result", z3.Implies(rd.run, rd.res() == view0[0]), pre=pre, assume=A, hw=hw)
    ctx.prove("read.run_iff_done", rd.run == rd.done, pre=pre, assume=A, hw=hw)
    ctx.prove("write.run_iff_done", wr.run == wr.done, pre=pre, assume=A, hw=hw)
    clr = m["clear"].run if has_clear else z3.BoolVal(False)
    if has_clear:
        ctx.prove("clear.ready", z3.Implies(m["clear"].en, m["clear"].done), pre=pre, assume=A, hw=hw)
        ctx.prove("write.ready", z3.Implies(wr.en, wr.done == (n0 != depth)), pre=pre, assume=A, hw=hw)
    else:
        ctx.prove("write.ready", z3.Implies(wr.en, wr.done == (n0 != depth)), pre=pre, assume=A, hw=hw)
    if has_peek:
        pk = m["peek"]
        ctx.prove("peek.ready", z3.Implies(pk.en, pk.done == (n0 != 0)), pre=pre, assume=A, hw=hw)
        ctx.prove("peek.result", z3.Implies(pk.run, pk.res() == view0[0]), pre=pre, assume=A, hw=hw)
    # --- whole-view step: view' = clear ? [] : append(drop(view, read), write) ---------------------
    after = view0.drop(N(rd.run)).append1(arg, wr.run)
    exp = Seq.ite(clr, Seq(N(0), after.e), after)
    ctx.prove("step.view", view1.eq(exp), pre=pre, assume=A, hw=hw)
    # --- covers ---------------------------------------------------------------------------------
    ctx.cover("pre", z3.And(*pre), hw=hw)
    ctx.cover("read.run", z3.And(*pre, rd.run), hw=hw)
    ctx.cover("write.run", z3.And(*pre, wr.run), hw=hw)
    ctx.cover("full", z3.And(*pre, n0 == depth), hw=hw)
    if depth > 1 or not has_clear:
        pass
    ctx.cover("read+write", z3.And(*pre, rd.run, wr.run), hw=hw) if depth > 1 else None
    if has_clear:
        ctx.cover("clear+write", z3.And(*pre, clr, wr.run), hw=hw)


def run_basic(cfg, ctx):
    depth = cfg["depth"]
    dut = BasicFifo(LAYOUTS[cfg["layout"]], depth)
    th = TH(dut, {"read": dut.read, "write": dut.write, "peek": dut.peek, "clear": dut.clear}, capture=(BasicFifo, CircularAllocator))
    hw = ctx.use(th.hw)
    ts = hw.ts
    loc = th.locals_of(dut)
    alloc = loc["allocator"]
    rdport = loc["data_rdport"]
    midx = ts.memory_of(rdport.data)
    rpk = ts.readport_key(rdport.data)

    def rep(nextstate):
        g = (lambda s: hw.nxt(s)) if nextstate else (lambda s: hw.sig(s))
        start, end, allocated = g(alloc.start_idx), g(alloc.end_idx), g(alloc.allocated)
        rows = ts.mem_next_rows[midx] if nextstate else ts.mem_rows(midx)
        rp = ts.next[rpk] if nextstate else ts.state[rpk]
        start = start if start is not None else None
        return start, end, allocated, rows, rp

    def wf(start, end, allocated, rows, rp):
        c = [le(allocated, depth)]
        if start is not None:
            c += [lt(start, depth), lt(end, depth), N(end) == nmod(N(start) + N(allocated), depth)]
        c.append(z3.Implies(N(allocated) != 0, rp == select(rows, N(start))))
        return z3.And(*c)

    def view(start, end, allocated, rows, rp):
        return Seq(N(allocated), [select(rows, nmod(N(start) + k, depth)) for k in range(depth)])

    s0, s1 = rep(False), rep(True)
    pre = [wf(*s0)]
    ctx.prove("init.wf", ts.at_init(wf(*s0)))
    ctx.prove("init.view_empty", ts.at_init(view(*s0).n == 0))
    ctx.prove("step.wf", wf(*s1), pre=pre, hw=hw)
    if hw.rst is not None:
        ctx.prove("reset.wf", wf(*s1), pre=pre + [hw.rst == 1])
    _queue_obligations(ctx, hw, pre, view(*s0), view(*s1), depth, th.m, True, True, th.m["write"].arg())
    # the level/read_idx/write_idx attributes the class exposes agree with the view
    ctx.prove("level.is_len", N(hw.sig(dut.level)) == view(*s0).n, pre=pre, hw=hw)


def run_fifo(cfg, ctx):
    depth = cfg["depth"]
    dut = FIFO(LAYOUTS[cfg["layout"]], depth)
    th = TH(dut, {"read": dut.read, "write": dut.write}, capture=(FIFO, amaranth.lib.fifo.SyncFIFO))
    hw = ctx.use(th.hw)
    ts = hw.ts
    fifo = th.locals_of(dut)["fifo"]
    loc = th.locals_of(fifo)
    produce, consume, r_port = loc["produce"], loc["consume"], loc["r_port"]
    midx = ts.memory_of(r_port.data)

    def rep(nextstate):
        g = (lambda s: hw.nxt(s)) if nextstate else (lambda s: hw.sig(s))
        rows = ts.mem_next_rows[midx] if nextstate else ts.mem_rows(midx)
        return g(produce), g(consume), g(fifo.level), rows

    def wf(p, c, level, rows):
        cs = [le(level, depth)]
        if p is not None:
            cs += [lt(p, depth), lt(c, depth), N(p) == nmod(N(c) + N(level), depth)]
        return z3.And(*cs)

    def view(p, c, level, rows):
        return Seq(N(level), [select(rows, nmod(N(c) + k, depth)) for k in range(depth)])

    s0, s1 = rep(False), rep(True)
    pre = [wf(*s0)]
    ctx.prove("init.wf", ts.at_init(wf(*s0)))
    ctx.prove("init.view_empty", ts.at_init(view(*s0).n == 0))
    ctx.prove("step.wf", wf(*s1), pre=pre, hw=hw)
    _queue_obligations(ctx, hw, pre, view(*s0), view(*s1), depth, th.m, False, False, th.m["write"].arg())


def run(cfg, ctx):
    if cfg["kind"] == "basic":
        run_basic(cfg, ctx)
    else:
        run_fifo(cfg, ctx)


def _patch_mod_add():
    import transactron.utils.amaranth_ext.functions as F
    import transactron.lib.allocators as A

    orig = F.mod_add

    def bad(sig, mod, incr, max_incr):
        return orig(sig, mod, incr, max_incr) if mod < 3 else orig(sig, mod - 1, incr, max_incr)

    A.mod_add = bad


def _patch_clear_loses_to_write():
    import transactron.lib.allocators as A
    from amaranth import Signal

    # clear no longer resets `allocated` (write's update wins)
    orig = A.CircularAllocator.elaborate

    def elab(self, platform):
        m = orig(self, platform)
        return m

    # simulate by making BasicFifo.clear not call allocator.clear when write runs: patch BasicFifo.elaborate source
    import transactron.lib.fifo as F, inspect, textwrap

    src = textwrap.dedent(inspect.getsource(F.BasicFifo.elaborate))
    src = src.replace("allocator.clear(m)", "with m.If(~self.write.run):\n                allocator.clear(m)")
    ns = dict(F.__dict__)
    exec(src, ns)
    F.BasicFifo.elaborate = ns["elaborate"]


CANARIES = [
    {"name": "mod_add_wrong_modulus", "cfg": {"kind": "basic", "depth": 3, "layout": "d2"}, "patch": _patch_mod_add, "expect": r"step\.(wf|view)"},
    {"name": "clear_loses_to_write", "cfg": {"kind": "basic", "depth": 3, "layout": "d2"}, "patch": _patch_clear_loses_to_write, "expect": r"step\.view"},
]
