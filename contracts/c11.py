"""C11 — ill-formed designs are rejected, well-formed ones accepted.

Run-time contract on elaboration (TransactionManager.elaborate and Amaranth's netlist builder) as a function
of the DesignSpec:  raises  <=>  not WellFormed(D),  with WellFormed from the spec-level oracle:
no recursion; no body (transaction or method as root) reaching an exclusive method through two call paths that
can be active together; no cycle in the lifted priority relation; single_caller respected; no transaction
ready-dependent on a transaction it conflicts with.  Inputs: planted single-defect designs with their accepted
neighbours, every curated design of the family, and seeded random designs (which are ill-formed about as often
as not). Bounded stand-in: exhaustive over the listed cases, not a proof over all designs."""

import random

from amaranth.hdl._ir import Fragment
from amaranth.hdl import _ir
from transactron import TransactionManager
from transactron.core.context import TransactronContextElaboratable

from designs import family
from designs.build import DesignTop
from designs.oracle import Oracle, Unbuilt

PROPERTY = "C11"
LEVEL = "exploration"
ENGINE = "E-RT"
TECHNIQUE = "run-time contract on elaboration over enumerated design specs: raises <=> not WellFormed(spec-level oracle)"
LEVEL_TEXT = "Bounded stand-in (not a proof): the postcondition 'elaboration raises iff the design is ill-formed' is checked at run time on planted single-defect designs, their accepted neighbours, the curated family and seeded random designs."
LEVEL_NOTE = "Oracle WellFormed is written from the property text in designs/oracle.py (SAT over independent free conditions). Bounded to the enumerated designs."
ASSUMPTIONS = [
    "bounded: planted defect cases + curated family + seeded random designs (<= 3 transactions, <= 3 methods, nesting <= 2)",
    "WellFormed oracle: independent free conditions make 'simultaneously activatable' coincide with 'not in different alternatives of one control structure'; the generator therefore never emits a Switch case that is completely shadowed by earlier cases",
]


def configs(tier):
    out = [{"case": n} for n in family.c11_cases()]
    out += [{"curated": n} for n in list(family.curated()) + list(family.cond_designs()) + list(family.rr_designs())]
    n = 150 if tier == "quick" else 1500
    import os

    base = 20000 if tier == "quick" else 30000 + 100000 * int(os.environ.get("VERIF_SEED", "0"))
    out += [{"random": base + i} for i in range(n)]
    return out


def elaborate(spec):
    d = DesignTop(spec)
    top = TransactronContextElaboratable(d, transaction_manager=TransactionManager())
    err = None
    from engine.hw import Recorder

    with Recorder() as rec:  # which /repo functions ran (reported as functions under contract)
        try:
            frag = Fragment.get(top, None)
            design = frag.prepare(ports=d.inputs + d.outputs, hierarchy=("top",))
            _ir.build_netlist(design)
        except Exception as e:  # noqa: BLE001
            err = e
    d.recorded_functions = rec.functions
    return d, err


def well_formed(o):
    reasons = []
    if o.has_recursion():
        reasons.append("recursion")
        return reasons
    for root in list(o.transactions) + list(o.methods):
        if o.root_double_call(root):
            reasons.append(f"double call from {root}")
            break
    if o.priority_cycle():
        reasons.append("priority cycle")
    if o.single_caller_violation():
        reasons.append("single_caller")
    if not reasons:
        conf = o.spec_conf()
        for t in o.transactions:
            for dep in o.ready_deps(t):
                if dep in conf[t]:
                    reasons.append(f"{t} ready-dependent on conflicting {dep}")
    return reasons


def run(cfg, ctx):
    expected = None
    if "case" in cfg:
        spec, expected, kind = family.c11_cases()[cfg["case"]]
    elif "curated" in cfg:
        spec = {**family.curated(), **family.cond_designs(), **family.rr_designs()}[cfg["curated"]]
    else:
        spec = family.random_spec(random.Random(cfg["random"]))
    d, err = elaborate(spec)
    if not d.bodies:
        raise RuntimeError(f"design construction failed before elaboration: {err!r}")
    o = Oracle(Unbuilt(d, spec))
    has_cond = bool(d.conds)
    reasons = well_formed(o)
    failures = []
    raised = err is not None
    if expected is not None and (expected == "reject") != bool(reasons):
        raise RuntimeError(f"oracle disagrees with the planted expectation for {cfg}: {reasons}")
    if raised != bool(reasons):
        failures.append({"design": cfg, "oracle_ill_formed_because": reasons, "elaboration_raised": repr(err)[:300]})
    ctx.functions.update(d.recorded_functions)
    ctx.functions.update({("TransactionManager.elaborate", "transactron/core/manager.py"), ("MethodMap.__init__", "transactron/core/manager.py"),
                          ("TransactionManager._conflict_graph", "transactron/core/manager.py")})
    kind = "reject" if reasons else "accept"
    name = f"elaboration.{kind}s"
    tag = ""
    if raised != bool(reasons) and not reasons and "cycle" in repr(err):
        # well-formed by the oracle but rejected with a priority "cycle": is it the self-loop of a same-transaction relation?
        tag = "[priority_self_loop]" if _self_loop(o) else ""
    ctx.bounded_result(name + tag, 1, 1, failures, rule="one design spec = one case; distinct by construction (case name / seed); non-trivial = the design has at least one transaction and was constructed through the public API",
                       samples=[{"design": cfg, "ill_formed_because": reasons, "raised": repr(err)[:120] if err else None}], exhaustive=True)


def _self_loop(o):
    for rel in o.b.spec.get("relations", []):
        if rel[0] == "conflict" and rel[3] in ("L", "R"):
            a = rel[1] if rel[1] in o.bodies else o.d.resolve(rel[1])
            b = rel[2] if rel[2] in o.bodies else o.d.resolve(rel[2])
            if set(o.transactions_for(a)) & set(o.transactions_for(b)):
                return True
    return False


def _patch_double_call_depth():
    import transactron.core.manager as MG
    import inspect, textwrap

    src = textwrap.dedent(inspect.getsource(MG.MethodMap.__init__))
    old = "not call_paths_exclusive(old_call_path, new_call_path)"
    assert old in src
    src = src.replace(old, "len(old_call_path) == len(new_call_path) and " + old)
    ns = dict(MG.__dict__)
    exec(src, ns)
    MG.MethodMap.__init__ = ns["__init__"]


def _patch_single_caller():
    import transactron.core.manager as MG
    import inspect, textwrap

    src = textwrap.dedent(inspect.getsource(MG.TransactionManager.elaborate))
    src = src.replace("len(method_args[method]) > 1", "len(method_args[method]) > 2")
    ns = dict(MG.__dict__)
    exec(src, ns)
    MG.TransactionManager.elaborate = ns["elaborate"]


CANARIES = [
    {"name": "double_call_only_detected_at_equal_depth", "cfg": {"case": "double_call_d2"}, "patch": _patch_double_call_depth, "expect": r"elaboration\.rejects"},
    {"name": "single_caller_allows_two", "cfg": {"case": "single_caller_two_transactions"}, "patch": _patch_single_caller, "expect": r"elaboration\.rejects"},
]
