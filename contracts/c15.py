"""C15 — WideFifo behaves as a bounded queue with batched operations.

State: read_idx{row,col}, write_idx{row,col}, level, one memory per column with a registered read port.
lin(idx) = row*C + col.  wf: indices in range; level <= depth; lin(write) - lin(read) == level (mod depth);
level != 0 => column i's read register = storage_i[i >= read.col ? read.row : read.row+1 mod R].
view[k] = element at linear index lin(read)+k (mod depth), k < level.
Spec (from the property text): read(count) returns n = min(count, level, read_width), its first n data = take n view,
view' = drop n; peek: count = min(level, read_width), same data, no change; write(count, data[, max_count]) is
ready iff level < depth and the call is accepted only if (max_count if configured else count) <= depth - level;
appends data[0..count); clear empties and wins over read/write."""

import z3
from amaranth import Value, Signal
from transactron.lib.fifo import WideFifo

from engine.th import TH

PROPERTY = "C15"
HISTORY_LEMMAS = ['batched_queue_history']  # lemmas/History.lean: one-cycle contracts => history-level statement (Lean 4)
LEVEL = "proof"
ASSUMPTIONS = [
    "caller obligations: count <= write_width / read_width (argument layouts are range(width+1)); with write_max_count: count <= max_count <= write_width (the documented precondition, which the library's own assertion also states)",
    "(read_width, write_width, rows, write_max_count) swept as listed with a 2-bit element shape; unbounded in inputs and history length",
]


def configs(tier):
    out = []
    if tier == "quick":
        lst = [(1, 1, 2, False), (2, 2, 2, False), (2, 1, 2, False), (1, 2, 3, False), (2, 3, 2, True), (3, 2, 2, True), (1, 1, 1, False), (2, 2, 1, True), (3, 3, 2, False), (1, 3, 2, True), (3, 1, 3, False), (2, 2, 3, True),
               # strongly asymmetric widths: the column index is much wider than the narrow side's count
               (1, 4, 2, False), (4, 1, 2, False), (5, 2, 2, True), (2, 7, 2, False)]
    else:
        lst = [(rw, ww, rows, mc) for rw in (1, 2, 3) for ww in (1, 2, 3) for rows in (1, 2, 3) for mc in (False, True)] + [(4, 4, 2, False), (4, 2, 2, True), (2, 4, 2, False), (1, 4, 2, False), (4, 1, 2, False), (5, 2, 2, True), (2, 7, 2, False), (1, 8, 2, False), (7, 2, 1, True), (1, 5, 3, False)]
    for rw, ww, rows, mc in lst:
        out.append({"read_width": rw, "write_width": ww, "rows": rows, "max_count": mc})
    return out


def run(cfg, ctx):
    RW, WW, ROWS, MAXC = cfg["read_width"], cfg["write_width"], cfg["rows"], cfg["max_count"]
    W = 2
    C = max(RW, WW)
    DEPTH = C * ROWS
    dut = WideFifo(W, DEPTH, RW, WW, write_max_count=MAXC)
    th = TH(dut, {"read": dut.read, "write": dut.write, "peek": dut.peek, "clear": dut.clear}, capture=(WideFifo,))
    hw = ctx.use(th.hw)
    ts = hw.ts
    loc = th.locals_of(dut)
    level_s = loc["level"]
    read_ports = loc["read_ports"]
    mems = [ts.memory_of(p.data) for p in read_ports]
    rpk = [ts.readport_key(p.data) for p in read_ports]
    I = lambda t: z3.BV2Int(t) if t is not None else z3.IntVal(0)

    def fld(view, name, nxt):
        v = getattr(view, name)
        if len(Value.cast(v)) == 0:
            return z3.IntVal(0)
        return I(hw.nxt(v) if nxt else hw.sig(v))

    def rep(nxt):
        rcol, rrow = fld(dut.read_idx, "col", nxt), fld(dut.read_idx, "row", nxt)
        wcol, wrow = fld(dut.write_idx, "col", nxt), fld(dut.write_idx, "row", nxt)
        level = I(hw.nxt(level_s) if nxt else hw.sig(level_s))
        rows = [ts.mem_next_rows[m] if nxt else ts.mem_rows(m) for m in mems]
        rps = [ts.next[k] if nxt else ts.state[k] for k in rpk]
        return rcol, rrow, wcol, wrow, level, rows, rps

    def rdrow(rws, r):
        x = rws[ROWS - 1]
        for i in reversed(range(ROWS - 1)):
            x = z3.If(r == i, rws[i], x)
        return x

    def elem(rows_, lin):
        c_ = lin % C
        r_ = lin / C
        x = None
        for ci in reversed(range(C)):
            v = rdrow(rows_[ci], r_)
            x = v if x is None else z3.If(c_ == ci, v, x)
        return x

    def wf(rcol, rrow, wcol, wrow, L, rows, rps):
        c = [rcol < C, rrow < ROWS, wcol < C, wrow < ROWS, L <= DEPTH, ((wrow * C + wcol) - (rrow * C + rcol) - L) % DEPTH == 0]
        for ci in range(C):
            addr = z3.If(ci >= rcol, rrow, (rrow + 1) % ROWS)
            c.append(z3.Implies(L != 0, rps[ci] == rdrow(rows[ci], addr)))
        return z3.And(*c)

    def view(rcol, rrow, wcol, wrow, L, rows, rps):
        return [elem(rows, ((rrow * C + rcol) + k) % DEPTH) for k in range(DEPTH)]

    s0, s1 = rep(False), rep(True)
    L0, L1 = s0[4], s1[4]
    v0, v1 = view(*s0), view(*s1)
    m = th.m
    rd, wr, pk, cl = m["read"], m["write"], m["peek"], m["clear"]
    req_cnt = I(rd.arg("count"))
    r_cnt, p_cnt = I(rd.res("count")), I(pk.res("count"))
    r_data = [hw.sig(rd.adapter.data_out.data[i]) for i in range(RW)]
    p_data = [hw.sig(pk.adapter.data_out.data[i]) for i in range(RW)]
    w_cnt = I(wr.arg("count"))
    w_data = [hw.sig(wr.adapter.data_in.data[i]) for i in range(WW)]
    w_max = I(wr.arg("max_count")) if MAXC else w_cnt
    A = [w_cnt <= WW, req_cnt <= RW, w_max <= WW, w_cnt <= w_max]
    pre = [wf(*s0)]
    mn = lambda a, b: z3.If(a < b, a, b)
    n_read = z3.If(rd.run, mn(mn(req_cnt, L0), z3.IntVal(RW)), 0)
    n_write = z3.If(wr.run, w_cnt, 0)
    P = lambda name, post, **kw: ctx.prove(name, post, pre=pre, assume=A, hw=hw, **kw)
    ctx.prove("init.wf", ts.at_init(z3.And(wf(*s0), L0 == 0)))
    P("step.wf", wf(*s1))
    ctx.prove("reset.wf", wf(*s1), pre=pre + [hw.rst == 1], assume=A)
    P("read.ready", z3.Implies(rd.en, rd.done == (L0 != 0)))
    P("peek.ready", z3.Implies(pk.en, pk.done == (L0 != 0)))
    P("write.accepts_iff_it_fits", z3.Implies(wr.en, wr.done == z3.And(L0 < DEPTH, w_max <= DEPTH - L0)))
    P("write.method_ready_iff_space_remains", hw.b(dut.write.ready) == (L0 < DEPTH))
    P("clear.ready", z3.Implies(cl.en, cl.done))
    for k, io in m.items():
        P(f"{k}.run_iff_done", io.run == io.done)
    P("read.result", z3.Implies(rd.run, z3.And(r_cnt == n_read, *[z3.Implies(k < n_read, r_data[k] == v0[k]) for k in range(RW)])))
    P("peek.result", z3.Implies(pk.run, z3.And(p_cnt == mn(L0, z3.IntVal(RW)), *[z3.Implies(k < p_cnt, p_data[k] == v0[k]) for k in range(RW)])))
    exp_len = z3.If(cl.run, 0, L0 - n_read + n_write)
    conds = [L1 == exp_len]
    keep = L0 - n_read
    for k in range(DEPTH):
        old = None
        for j in reversed(range(DEPTH)):
            old = v0[j] if old is None else z3.If(k + n_read == j, v0[j], old)
        new = None
        for j in reversed(range(WW)):
            new = w_data[j] if new is None else z3.If(k - keep == j, w_data[j], new)
        conds.append(z3.Implies(z3.And(z3.Not(cl.run), k < exp_len), v1[k] == z3.If(k < keep, old, new)))
    P("step.view", z3.And(*conds))
    # noassert: the library's own ERROR-level records fire only when the caller breaks count <= max_count
    import logging

    errs = th.log_records(logging.ERROR)
    if MAXC:
        if len(errs) != 1 or errs[0][1] is None:
            raise RuntimeError(f"expected exactly one ERROR-level log record with a signal trigger, got {len(errs)}")
        trig = errs[0][1]
        P("noassert.library_assertion_silent_under_caller_obligation", z3.Not(trig))
        ctx.prove("library_assertion.fires_iff_count_exceeds_max_count", trig == z3.And(wr.run, w_cnt > w_max), pre=pre, assume=[w_cnt <= WW, req_cnt <= RW, w_max <= WW], hw=hw)
    elif errs:
        raise RuntimeError("unexpected ERROR-level log record")
    ctx.cover("pre", z3.And(*pre, *A), hw=hw)
    ctx.cover("read+write", z3.And(*pre, *A, rd.run, wr.run), hw=hw) if DEPTH > 1 else None
    ctx.cover("full", z3.And(*pre, L0 == DEPTH), hw=hw)
    ctx.cover("write_max", z3.And(*pre, *A, wr.run, w_cnt == WW), hw=hw)
    ctx.cover("clear+write", z3.And(*pre, *A, cl.run, wr.run), hw=hw)


def _patch_read_available():
    import transactron.lib.fifo as F
    import inspect, textwrap

    src = textwrap.dedent(inspect.getsource(F.WideFifo.elaborate))
    old = "Mux(level > self.read_width, self.read_width, level)"
    assert old in src
    src = src.replace(old, "Mux(level >= self.read_width - 1, self.read_width, level)")
    ns = dict(F.__dict__)
    exec(src, ns)
    F.WideFifo.elaborate = ns["elaborate"]


def _patch_incr():
    import transactron.lib.fifo as F
    import inspect, textwrap

    src = textwrap.dedent(inspect.getsource(F.WideFifo.elaborate))
    old = "with m.If(idx.col + count >= col_count):"
    assert old in src
    src = src.replace(old, "with m.If(idx.col + count > col_count):")
    ns = dict(F.__dict__)
    exec(src, ns)
    F.WideFifo.elaborate = ns["elaborate"]


CANARIES = [
    {"name": "read_available_off_by_one", "cfg": {"read_width": 3, "write_width": 2, "rows": 2, "max_count": True}, "patch": _patch_read_available, "expect": r"read\.result|peek\.result|step\."},
    {"name": "column_wrap_off_by_one", "cfg": {"read_width": 2, "write_width": 2, "rows": 2, "max_count": False}, "patch": _patch_incr, "expect": r"step\.(wf|view)"},
]
