"""C09 — round-robin scheduler: one grant per conflict component, no starvation.

Designs elaborated with TransactionManager(trivial_roundrobin_cc_scheduler). State: the grant register of each
OneHotRoundRobin arbiter. Spec-level components are the connected components of SpecConf (oracle).
Invariant: every grant register is one-hot, and for every transaction t (k_t its position in its arbiter,
n its component size) the ghost wait counter w_t (consecutive cycles t was fully enabled without running)
satisfies w_t + ((k_t - last_grant - 1) mod n) <= n - 1.
Obligations: at most one transaction of a component runs; some transaction of a component runs whenever one is
fully enabled; invariant preserved; w_t <= n-1 (a transaction that stays enabled runs within n cycles)."""

import itertools

import z3
from transactron.utils.amaranth_ext.elaboratables import OneHotRoundRobin

from contracts import corelib
from designs import family
from designs.build import Built
from designs.oracle import Oracle
from spec.seq import N, NW, at_most_one, bit, le, nmod

PROPERTY = "C09"
HISTORY_LEMMAS = ['served_within']  # lemmas/History.lean: one-cycle contracts => history-level statement (Lean 4)
LEVEL = "proof"
ASSUMPTIONS = corelib.CORE_ASSUMPTIONS[1:] + [
    "design shapes: conflict components of 1-5 transactions (shared methods, chains, explicit conflicts, validators), no ready dependencies inside a component; all inputs, all histories from any state satisfying the invariant",
]
TECHNIQUE = "1-induction on the netlist of designs built with the round-robin scheduler; ghost wait counters with a ranking invariant; z3"


def configs(tier):
    from contracts import schedfn

    return [{"design": n, "scheduler": "rr"} for n in family.rr_designs()] + schedfn.configs_rr(tier)


def onehot(x):
    return z3.And(x != 0, (x & (x - 1)) == 0)


def components(conf):
    seen, out = set(), []
    for t in conf:
        if t in seen:
            continue
        comp, stack = set(), [t]
        while stack:
            u = stack.pop()
            if u in comp:
                continue
            comp.add(u)
            stack.extend(conf[u] - comp)
        seen |= comp
        out.append(sorted(comp))
    return out


def run(cfg, ctx):
    if cfg.get("kind") == "schedfn_rr":
        from contracts import schedfn

        return schedfn.run_rr(PROPERTY, cfg, ctx)
    spec = family.with_scheduler(family.rr_designs()[cfg["design"]], "rr")
    b = Built(spec, capture=(OneHotRoundRobin,))
    o = Oracle(b)
    hw = b.hw
    rrs = b.hw.rec.locals_of_class(OneHotRoundRobin)
    # position of every transaction in its arbiter (identified by what its run signal is wired to)
    pos = {}
    for rr, loc in rrs:
        g, v = hw.sig(rr.grant), hw.b(rr.valid)
        for k in range(rr.count):
            for t in o.transactions:
                s = z3.Solver()
                s.add(z3.Not(z3.Implies(b.run(t), z3.And(bit(g, k), v))), b.run(t) == b.run(t))
                s2 = z3.Solver()
                s2.add(b.run(t))
                if s.check() == z3.unsat and s2.check() == z3.sat:
                    pos[t] = (rr, loc["grant_reg"], k)
    if set(pos) != set(o.transactions):
        raise RuntimeError(f"could not locate the arbiter of {set(o.transactions) - set(pos)}")
    enabled = {t: o.enabled(t) for t in o.transactions}
    w = {t: hw.ghost(f"w_{t}", NW) for t in o.transactions}
    for t in o.transactions:
        hw.set_ghost_next(w[t], z3.If(z3.And(enabled[t], z3.Not(b.run(t))), w[t] + 1, N(0)))
    ctx.use(hw, xval_cycles=16 if ctx.tier == "quick" else 80)

    def idx_of(x, n):
        r = N(0)
        for i in range(n):
            r = z3.If(bit(x, i), N(i), r)
        return r

    def inv(nextstate):
        cs = []
        for rr, loc in rrs:
            greg = hw.nxt(loc["grant_reg"]) if nextstate else hw.sig(loc["grant_reg"])
            cs.append(onehot(greg))
        for t in o.transactions:
            rr, greg_s, k = pos[t]
            n = rr.count
            greg = hw.nxt(greg_s) if nextstate else hw.sig(greg_s)
            wt = hw.gnext(w[t]) if nextstate else w[t]
            rank = nmod(N(k) + N(2 * n) - idx_of(greg, n) - 1, n)
            cs += [le(wt, n - 1), le(wt + rank, n - 1)]
        return z3.And(*cs)

    pre = [inv(False)]
    ctx.prove("init.wf", hw.ts.at_init(inv(False)))
    ctx.prove("step.wf", inv(True), pre=pre, hw=hw)
    conf = o.spec_conf()
    comps = components(conf)
    for comp in comps:
        tag = "+".join(comp)
        runs = [b.run(t) for t in comp]
        ctx.prove(f"[{tag}].at_most_one_runs", at_most_one(runs), pre=pre, hw=hw)
        ctx.prove(f"[{tag}].one_runs_when_some_enabled", z3.Implies(z3.Or(*[enabled[t] for t in comp]), z3.Or(*runs)), pre=pre, hw=hw)
        for t in comp:
            ctx.prove(f"{t}.runs_only_when_enabled", z3.Implies(b.run(t), enabled[t]), pre=pre, hw=hw)
            ctx.prove(f"{t}.wait_bounded_by_component_size", le(w[t], len(comp) - 1), pre=pre, hw=hw)
        # the arbiter serving this component has exactly these transactions
        sizes = {pos[t][0].count for t in comp}
        ctx.prove(f"[{tag}].arbiter_matches_component", z3.BoolVal(sizes == {len(comp)} and len({id(pos[t][0]) for t in comp}) == 1))
        if len(comp) > 1:
            ctx.cover(f"[{tag}].all_enabled", z3.And(*pre, *[enabled[t] for t in comp]), hw=hw)
            ctx.cover(f"[{tag}].waited_max", z3.And(*pre, w[comp[0]] == len(comp) - 1), hw=hw)


def _patch_rr():
    import transactron.core.schedulers as S
    import transactron.core.manager as MG
    from amaranth import Module
    import designs.build as B

    def sched(method_map, gr, cc, porder):
        m = Module()
        rr = OneHotRoundRobin(len(cc))
        m.submodules.rr = rr
        for k, transaction in enumerate(cc):
            m.d.comb += rr.requests[k].eq(transaction.ready)  # runnable dropped
            m.d.comb += transaction.run.eq(rr.grant[k] & rr.valid & transaction.runnable)
        return m

    S.trivial_roundrobin_cc_scheduler = sched
    B.trivial_roundrobin_cc_scheduler = sched


def _patch_arbiter():
    import transactron.utils.amaranth_ext.elaboratables as E
    import inspect, textwrap

    src = textwrap.dedent(inspect.getsource(E.OneHotRoundRobin.elaborate))
    src = src.replace("itertools.chain(reversed(range(i)), reversed(range(i + 1, self.count)))", "itertools.chain(reversed(range(i + 1, self.count)), reversed(range(i)))")
    ns = dict(E.__dict__)
    exec(src, ns)
    E.OneHotRoundRobin.elaborate = ns["elaborate"]


CANARIES = [
    {"name": "grant_wasted_on_unrunnable", "cfg": {"design": "rr_validators", "scheduler": "rr"}, "patch": _patch_rr, "expect": r"one_runs_when_some_enabled|step\.wf|wait_bounded"},
    {"name": "arbiter_unfair", "cfg": {"design": "rr_3_share_method", "scheduler": "rr"}, "patch": _patch_arbiter, "expect": r"step\.wf|wait_bounded"},
    {"name": "arbiter_unfair_seen_by_function_contract", "cfg": {"kind": "schedfn_rr", "n": 4}, "patch": _patch_arbiter, "expect": r"rr_scheduler\[n=4\]\.(step\.wf|.*wait_bounded)"},
    {"name": "grant_wasted_seen_by_function_contract", "cfg": {"kind": "schedfn_rr", "n": 3}, "patch": _patch_rr, "expect": r"rr_scheduler\[n=3\]\.(one_runs_when_some_request|step\.wf|.*wait_bounded)"},
]
