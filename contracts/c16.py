"""C16 — Stack behaves as a bounded LIFO.

wf: level <= depth, and level != 0 => registered read data = mem[level-1]; view = mem[0..level).
Spec step: clear ? [] : (read & write ? replace_last x : read ? drop_last : write ? push x : same)."""

import z3
from transactron.lib.stack import Stack

from engine.th import TH
from spec.seq import N, Seq, select, lt, le

PROPERTY = "C16"
LEVEL = "proof"
ASSUMPTIONS = ["depths and payload layouts swept as listed (power of two and not); unbounded in inputs and history length"]
LAYOUTS = {"d1": [("data", 1)], "d2": [("data", 2)], "a1b2": [("a", 1), ("b", 2)]}


def configs(tier):
    # (a deep configuration as well: implementations may switch strategy above some depth)
    depths = [1, 2, 3, 4, 5, 6, 65] if tier == "quick" else list(range(1, 13)) + [16, 33, 65, 100]
    out = []
    for d in depths:
        for lay in (["d2"] if (tier == "quick" and d not in (2, 3)) else ["d1", "d2", "a1b2"]):
            out.append({"depth": d, "layout": lay})
    return out


def run(cfg, ctx):
    depth = cfg["depth"]
    dut = Stack(LAYOUTS[cfg["layout"]], depth)
    th = TH(dut, {"read": dut.read, "write": dut.write, "peek": dut.peek, "clear": dut.clear}, capture=(Stack,))
    hw = ctx.use(th.hw)
    ts = hw.ts
    loc = th.locals_of(dut)
    rdport = loc["data_rdport"]
    midx = ts.memory_of(rdport.data)
    rpk = ts.readport_key(rdport.data)

    def wf(level, rows, rp):
        return z3.And(le(level, depth), z3.Implies(N(level) != 0, rp == select(rows, N(level) - 1)))

    def view(level, rows, rp):
        return Seq(N(level), list(rows))

    s0 = (hw.sig(dut.level), ts.mem_rows(midx), ts.state[rpk])
    s1 = (hw.nxt(dut.level), ts.mem_next_rows[midx], ts.next[rpk])
    pre = [wf(*s0)]
    v0, v1 = view(*s0), view(*s1)
    m = th.m
    rd, wr, pk, cl = m["read"], m["write"], m["peek"], m["clear"]
    ctx.prove("init.wf", ts.at_init(wf(*s0)))
    ctx.prove("init.view_empty", ts.at_init(v0.n == 0))
    ctx.prove("step.wf", wf(*s1), pre=pre, hw=hw)
    ctx.prove("reset.wf", wf(*s1), pre=pre + [hw.rst == 1])
    ctx.prove("read.ready", z3.Implies(rd.en, rd.done == (v0.n != 0)), pre=pre, hw=hw)
    ctx.prove("peek.ready", z3.Implies(pk.en, pk.done == (v0.n != 0)), pre=pre, hw=hw)
    ctx.prove("write.ready", z3.Implies(wr.en, wr.done == (v0.n != depth)), pre=pre, hw=hw)
    ctx.prove("clear.ready", z3.Implies(cl.en, cl.done), pre=pre, hw=hw)
    ctx.prove("read.result", z3.Implies(rd.run, rd.res() == v0.last()), pre=pre, hw=hw)
    ctx.prove("peek.result", z3.Implies(pk.run, pk.res() == v0.last()), pre=pre, hw=hw)
    for k, io in m.items():
        ctx.prove(f"{k}.run_iff_done", io.run == io.done, pre=pre, hw=hw)
    x = wr.arg()
    both = v0.set_last(x)
    push = v0.append1(x, z3.BoolVal(True))
    pop = v0.drop_last(1)
    exp = Seq.ite(cl.run, Seq(N(0), v0.e), Seq.ite(z3.And(rd.run, wr.run), both, Seq.ite(rd.run, pop, Seq.ite(wr.run, push, v0))))
    ctx.prove("step.view", v1.eq(exp), pre=pre, hw=hw)
    ctx.cover("pre", z3.And(*pre), hw=hw)
    ctx.cover("full", z3.And(*pre, v0.n == depth), hw=hw)
    if depth > 1:
        ctx.cover("read+write", z3.And(*pre, rd.run, wr.run), hw=hw)
    ctx.cover("clear+write", z3.And(*pre, cl.run, wr.run), hw=hw)


def _patch_read_write():
    import inspect, textwrap
    import transactron.lib.stack as S

    src = textwrap.dedent(inspect.getsource(S.Stack.elaborate))
    src = src.replace("with m.If(self.write.run & ~self.read.run):", "with m.If(self.write.run):")
    ns = dict(S.__dict__)
    exec(src, ns)
    S.Stack.elaborate = ns["elaborate"]


CANARIES = [{"name": "read_write_grows", "cfg": {"depth": 3, "layout": "d2"}, "patch": _patch_read_write, "expect": r"step\.(view|wf)"}]
