"""C08 — conflict priorities are respected.

For each prioritised add_conflict after lifting to transactions (hi, lo): both fully enabled and lo runs =>
some other transaction of SpecConf(hi) runs. Chains and triangles with mixed LEFT/RIGHT/UNDEFINED,
priorities on methods lifted to their callers, combined with schedule_before."""

from contracts import corelib

PROPERTY = "C08"
LEVEL = "proof"
ASSUMPTIONS = corelib.CORE_ASSUMPTIONS
TECHNIQUE = "contracts on the elaborated netlist of generated designs (real manager in the loop), discharged by z3 for all inputs; oracle = spec-level design semantics"


def configs(tier):
    return corelib.design_configs(tier, schedulers=("eager",))


def run(cfg, ctx):
    corelib.run_core(PROPERTY, cfg, ctx)


def _patch_priority():
    import transactron.core.manager as MG
    import inspect, textwrap

    src = textwrap.dedent(inspect.getsource(MG.TransactionManager._conflict_graph))
    assert "pgr[end].add(begin)" in src
    src = src.replace("pgr[end].add(begin)", "pgr[begin].add(end)", 1)
    ns = dict(MG.__dict__)
    exec(src, ns)
    MG.TransactionManager._conflict_graph = staticmethod(ns["_conflict_graph"])


CANARIES = [{"name": "left_priority_reversed", "cfg": {"design": "conflict_tm", "scheduler": "eager"}, "patch": _patch_priority, "expect": r"low_runs_only_if"}]
