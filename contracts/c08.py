"""C08 — conflict priorities are respected.

For each prioritised add_conflict after lifting to transactions (hi, lo): both fully enabled and lo runs =>
some other transaction of SpecConf(hi) runs. Chains and triangles with mixed LEFT/RIGHT/UNDEFINED,
priorities on methods lifted to their callers, combined with schedule_before."""

from contracts import corelib, schedfn

PROPERTY = "C08"
LEVEL = "proof"
ASSUMPTIONS = corelib.CORE_ASSUMPTIONS
TECHNIQUE = "contracts on the elaborated netlist of generated designs (real manager in the loop), discharged by z3 for all inputs; oracle = spec-level design semantics"


def configs(tier):
    return corelib.design_configs(tier, schedulers=("eager",)) + schedfn.configs(tier)


def run(cfg, ctx):
    if cfg.get("kind") == "schedfn":
        return schedfn.run(PROPERTY, cfg, ctx)
    corelib.run_core(PROPERTY, cfg, ctx)


def _patch_priority():
    import transactron.core.manager as MG
    import inspect, textwrap

    src = textwrap.dedent(inspect.getsource(MG.TransactionManager._conflict_graph))
    assert "pgr[end].add(begin)" in src
    src = src.replace("pgr[end].add(begin)", "pgr[begin].add(end)", 1)
    ns = dict(MG.__dict__)
    exec(src, ns)
    MG.TransactionManager._conflict_graph = staticmethod(ns["_conflict_graph"])


def _patch_scheduler_order():
    import transactron.core.schedulers as S
    from amaranth import Module, Cat

    def sched(method_map, gr, cc, porder):
        m = Module()
        ccl = sorted(cc, key=lambda t: -porder[t])  # priority order reversed
        for k, transaction in enumerate(ccl):
            conflicts = [ccl[j].run for j in range(k) if ccl[j] in gr[transaction]]
            m.d.comb += transaction.run.eq(transaction.ready & transaction.runnable & ~Cat(conflicts).any())
        return m

    S.eager_deterministic_cc_scheduler = sched


CANARIES = [{"name": "scheduler_sorts_by_descending_porder", "cfg": {"kind": "schedfn", "n": 2, "graphs": [0, 2]}, "patch": _patch_scheduler_order, "expect": r"scheduler\[.*blocked_only_by_earlier"},
            {"name": "left_priority_reversed", "cfg": {"design": "conflict_tm", "scheduler": "eager"}, "patch": _patch_priority, "expect": r"low_runs_only_if"}]
