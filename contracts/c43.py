"""C43 — testbench helpers call methods exactly once (bounded stand-in, E-RT).

TestbenchIO.call / call_try / call_do / call_result and CallTrigger are run on a stub of the simulator context that
implements only Amaranth's assumed contract (engine/simstub.py), for EVERY readiness history of the called method of
up to 5 cycles and two output patterns:
  call_try returns None <=> the method did not run in that cycle, otherwise that cycle's outputs; `en` is high for exactly
  that cycle;  call returns the outputs of the first cycle in which the method ran; `en` is high from the first cycle up to
  and including that cycle and low afterwards, so exactly one call is performed;  call_do likewise after call_init;
  call_result never touches `en`;  CallTrigger returns calls and samples in declaration order, None for calls that did not run.

MethodMock (three cooperating coroutines) cannot be run on the stub: its meaning depends on the delta-cycle semantics of
Amaranth's simulator (`changed().edge()`, `delay(0)`, `critical()`). Its clause is therefore checked as a bounded
run-time contract on the REAL simulator (PysimSimulator + add_mock): for every enable history of the mock and every
request history of the caller of T cycles (all 4^T combinations), with and without validate_arguments, delay 0 and > 0:
  the mocked method runs in cycle t  <=>  enable()[t] and the caller requests and validate_arguments(arg[t]);
  the caller sees, in that same cycle, the mock function's return value for arg[t] (through a combinational +1);
  the recorded effects are exactly [arg[t] | the method ran in cycle t], in order — once per executed call, never for a
  cycle in which the method did not run (although the mock function itself is re-evaluated combinationally)."""

import itertools

from amaranth import Signal
from transactron.lib.adapters import AdapterTrans
from transactron.testing.testbenchio import TestbenchIO, CallTrigger

from engine.simstub import StubSim, EndOfScript, drive

PROPERTY = "C43"
LEVEL = "exploration"
ENGINE = "E-RT"
TECHNIQUE = "bounded run-time contracts (not proof): the real TestbenchIO/CallTrigger coroutines on a simulator stub over every readiness history; the real MethodMock coroutines on Amaranth's simulator over every enable x request history"
LEVEL_TEXT = "Bounded stand-in (not a proof): TestbenchIO/CallTrigger run against a stub of the simulator contract for every readiness history of <= 5 cycles; MethodMock runs on the real simulator for every enable x request history of 3 (quick) / 5 (thorough) cycles."
LEVEL_NOTE = "TestbenchIO/CallTrigger: assumes Amaranth's simulator delivers samples and applies sets as the stub does (trusted dependency). MethodMock: bounded run-time contract on Amaranth's real simulator (all enable x request histories of T cycles); nothing in C43 is counted as proved."
ASSUMPTIONS = [
    "simulator contract assumed (stub): a set() made before awaiting a tick is visible in that cycle; tick().sample() returns the values of that cycle",
    "bounded: readiness histories of <= 5 cycles, 2-bit outputs from two patterns",
    "MethodMock clause: bounded — every (enable history, request history) pair of T = 3 (quick) / 5 (thorough) cycles, with the caller testbench registered before or after the mock and with or without an intra-cycle change of mind of the caller, on Amaranth's real simulator, 3-bit arguments from a fixed pattern, one caller; interleavings with other mocks/testbenches beyond one caller testbench are not explored",
]
T = 5


def configs(tier):
    out = [{"fn": f} for f in ("call_try", "call", "call_do", "call_result", "call_trigger")]
    tm = 3 if tier == "quick" else 5
    for variant in ("wrapper", "validate"):
        for delay in (0, 1e-9):
            for order in ("mock_first", "testbench_first"):
                for glitch in (0, 1):
                    for lo in range(0, 1 << tm, 4):
                        out.append({"fn": "method_mock", "variant": variant, "delay": delay, "order": order, "glitch": glitch, "T": tm, "enable": [lo, lo + 4]})
    return out


def make_world(tb, ready, outs, log):
    ad = tb.adapter
    from amaranth import Value

    def world(t, env):
        if t >= len(ready):
            raise EndOfScript()
        en = env.get(id(ad.en), 0)
        done = 1 if (en and ready[t]) else 0
        env[id(ad.done)] = done
        env[id(Value.cast(ad.data_out))] = outs[t]
        if len(log) <= t:
            log.append({"en": en, "done": done, "out": outs[t], "arg": env.get(id(Value.cast(ad.data_in)), 0)})

    return world


def histories():
    for ready in itertools.product([0, 1], repeat=T):
        for pat in (0, 1):
            outs = [(t + 1 + 2 * pat) % 4 for t in range(T)]
            yield list(ready), outs


# ---------------------------------------------------------------------------------------------- MethodMock
MW = 3


def _mm_circuit(variant):
    from amaranth import Elaboratable, Module
    from amaranth.lib.data import StructLayout
    from transactron import Method, TModule, def_method
    from transactron.lib.adapters import Adapter

    lay_i, lay_o = StructLayout({"x": MW}), StructLayout({"y": MW})

    class Circ(Elaboratable):
        def __init__(self):
            ad = Adapter(i=lay_i, o=lay_o)
            if variant == "validate":
                ad = ad.set(with_validate_arguments=True)
            self.method = TestbenchIO(ad)  # the mocked method
            self.wrapper = Method(i=lay_i, o=lay_o)
            self.caller = TestbenchIO(AdapterTrans.create(self.wrapper))

        def elaborate(self, platform):
            m = TModule()
            m.submodules += [self.method, self.caller]

            @def_method(m, self.wrapper)
            def _(x):
                return {"y": self.method.adapter.iface(m, x=x).y + 1}

            return m

    return Circ()


def mm_one(variant, delay, en_hist, req_hist, order="mock_first", glitch=0):
    from transactron.testing.simulator import PysimSimulator
    from transactron.testing.method_mock import MethodMock
    from transactron.utils.dependencies import DependencyContext, DependencyManager

    tm = len(en_hist)
    args = [(3 * t + 1) % (1 << MW) for t in range(tm)]
    fun = lambda x: (2 * x + 1) % (1 << MW)
    valid = (lambda x: x != 4) if variant == "validate" else None
    effects, obs = [], []
    with DependencyContext(DependencyManager()):
        c = _mm_circuit(variant)
        sim = PysimSimulator(c, max_cycles=50)
        it = iter(list(en_hist) + [0] * 4)

        def f(x):
            @MethodMock.effect
            def _():
                effects.append(int(x))

            return {"y": fun(int(x))}

        async def tb(s):
            for t in range(tm):
                if glitch:  # request something else first and change one's mind within the cycle (the design settles in between)
                    c.caller.set_enable(s, 1)
                    c.caller.set_inputs(s, {"x": (args[t] + 3) % (1 << MW)})
                    assert s.get(c.caller.adapter.done) in (0, 1)
                c.caller.set_enable(s, req_hist[t])
                c.caller.set_inputs(s, {"x": args[t]})
                _, _, done, out, mdone = await s.tick().sample(c.caller.adapter.done, c.caller.adapter.data_out, c.method.adapter.done)
                obs.append((int(done), int(out.y), int(mdone)))
            c.caller.disable(s)

        kw = {"validate_arguments": (lambda x: valid(int(x)))} if valid else {}
        if order == "testbench_first":
            sim.add_testbench(tb)
        sim.add_mock(MethodMock(c.method.adapter, f, enable=lambda: next(it), delay=delay, **kw))
        if order != "testbench_first":
            sim.add_testbench(tb)
        sim.run()
    runs = [int(bool(en_hist[t] and req_hist[t] and (valid is None or valid(args[t])))) for t in range(tm)]
    exp_obs = [(runs[t], (fun(args[t]) + 1) % (1 << MW) if runs[t] else None, runs[t]) for t in range(tm)]
    ok = all(o[0] == e[0] and o[2] == e[2] and (e[1] is None or o[1] == e[1]) for o, e in zip(obs, exp_obs)) and len(obs) == tm
    ok = ok and effects == [args[t] for t in range(tm) if runs[t]]
    return ok, {"order": order, "glitch": glitch, "enable": list(en_hist), "request": list(req_hist), "args": args, "observed(done,out,method_done)": obs, "expected_runs": runs,
                "effects": effects, "expected_effects": [args[t] for t in range(tm) if runs[t]]}


def run_method_mock(cfg, ctx):
    tm = cfg["T"]
    fails, n = [], 0
    for en0 in range(*cfg["enable"]):
        en_hist = [(en0 >> t) & 1 for t in range(tm)]
        for req in itertools.product([0, 1], repeat=tm):
            n += 1
            ok, info = mm_one(cfg["variant"], cfg["delay"], en_hist, list(req), cfg.get("order", "mock_first"), cfg.get("glitch", 0))
            if not ok:
                fails.append(info)
    ctx.functions.update({("MethodMock.output_process", "transactron/testing/method_mock.py"), ("MethodMock.effect_process", "transactron/testing/method_mock.py"),
                          ("MethodMock.validate_arguments_process", "transactron/testing/method_mock.py"), ("MethodMock.effect", "transactron/testing/method_mock.py"),
                          ("PysimSimulator.add_mock", "transactron/testing/simulator.py"), ("async_mock_def_helper", "transactron/utils/transactron_helpers.py")})
    ctx.bounded_result("method_mock.contract", n, n, fails, rule=f"4 enable histories x every request history of {tm} cycles on Amaranth's real simulator; all distinct; every case simulates the real MethodMock coroutines to the end of the script",
                       samples=[{"enable": en_hist, "request": [1] * tm}], exhaustive=True)


def run(cfg, ctx):
    fn = cfg["fn"]
    if fn == "method_mock":
        return run_method_mock(cfg, ctx)
    fails = []
    n = 0
    for ready, outs in histories():
        n += 1
        tb = TestbenchIO(AdapterTrans(i=[("x", 2)], o=[("y", 2)]))
        log = []
        sim = StubSim(make_world(tb, ready, outs, log))
        first = next((t for t in range(T) if ready[t]), None)
        try:
            if fn == "call_try":
                res = drive(tb.call_try(sim, x=2))
                exp = outs[0] if ready[0] else None
                got = None if res is None else res.y
                ok = got == exp and [c["en"] for c in log] == [1] and sim.env[id(tb.adapter.en)] == 0 and log[0]["arg"] == 2
            elif fn in ("call", "call_do"):
                if fn == "call_do":
                    tb.call_init(sim, x=1)
                    res = drive(tb.call_do(sim))
                else:
                    res = drive(tb.call(sim, {"x": 1}))
                ens = [c["en"] for c in log]
                dones = [c["done"] for c in log]
                ok = first is not None and res.y == outs[first] and len(log) == first + 1 and sim.env[id(tb.adapter.en)] == 0 and sum(dones) == 1 and all(c["arg"] == 1 for c in log if c["done"])
                # `call` lowers en between retries and raises it again before the next cycle: what matters is en in each cycle
                ok = ok and all(ens)
            elif fn == "call_result":
                sim.set(tb.adapter.en, 1)
                res = drive(tb.call_result(sim))
                exp = outs[0] if ready[0] else None
                ok = (None if res is None else res.y) == exp and sim.env[id(tb.adapter.en)] == 1
            else:
                tb2 = TestbenchIO(AdapterTrans(o=[("y", 2)]))  # a method without arguments: call(tb2) passes an empty dict
                extra = Signal(3, name="extra")
                log2 = []
                w1 = make_world(tb, ready, outs, log)
                w2 = make_world(tb2, list(reversed(ready)), [(o + 1) % 4 for o in outs], log2)

                # a method that is only observed by this trigger: "the method is not called - another process can do that instead";
                # that other process has it enabled, and the trigger must leave the enable alone
                tb3 = TestbenchIO(AdapterTrans(o=[("y", 2)]))
                log3 = []
                w3 = make_world(tb3, ready, [(o + 2) % 4 for o in outs], log3)

                def world(t, env):
                    w1(t, env)
                    w2(t, env)
                    w3(t, env)
                    env[id(extra)] = (t + 5) % 8

                sim = StubSim(world)
                sim.set(tb3.adapter.en, 1)
                res = drive(_await(CallTrigger(sim).call(tb, x=3).sample(extra).call(tb2).sample(tb2).sample(tb3)))
                e1 = outs[0] if ready[0] else None
                e2 = (outs[0] + 1) % 4 if ready[T - 1] else None
                e3 = (outs[0] + 2) % 4 if ready[0] else None
                ok = (len(res) == 5 and (None if res[0] is None else res[0].y) == e1 and res[1] == 5 and (None if res[2] is None else res[2].y) == e2
                      and (None if res[3] is None else res[3].y) == e2 and sim.env[id(tb.adapter.en)] == 0 and sim.env[id(tb2.adapter.en)] == 0
                      and (None if res[4] is None else res[4].y) == e3 and sim.env[id(tb3.adapter.en)] == 1)
            if not ok:
                fails.append({"ready": ready, "outs": outs, "result": repr(res), "cycles": log})
        except EndOfScript:
            # the method never becomes ready within the script: call/call_do must still be waiting with en high in every cycle
            ok = fn in ("call", "call_do") and first is None and all(c["en"] for c in log) and len(log) == T
            if not ok:
                fails.append({"ready": ready, "outs": outs, "result": "ran past the end of the script", "cycles": log})
    ctx.functions.update({("TestbenchIO.call", "transactron/testing/testbenchio.py"), ("TestbenchIO.call_try", "transactron/testing/testbenchio.py"),
                          ("TestbenchIO.call_do", "transactron/testing/testbenchio.py"), ("TestbenchIO.call_result", "transactron/testing/testbenchio.py"),
                          ("CallTrigger.__await__", "transactron/testing/testbenchio.py"), ("CallTrigger.until_done", "transactron/testing/testbenchio.py")})
    ctx.bounded_result(f"{fn}.contract", n, n, fails, rule="every readiness history of 5 cycles (2^5) x 2 output patterns; all distinct; each drives the real coroutine to completion (or to the end of the script)",
                       samples=[{"ready": [0, 0, 1, 0, 1], "outs": [1, 2, 3, 0, 1]}], exhaustive=True)


async def _await(x):
    return await x


def _patch_disable():
    import transactron.testing.testbenchio as TB
    import inspect, textwrap

    src = textwrap.dedent(inspect.getsource(TB.CallTrigger.__await__))
    old = "        if data is not None:\n            tbio.disable(self.sim)"
    assert old in src, src
    src = src.replace(old, "        if data:\n            tbio.disable(self.sim)")
    ns = dict(TB.__dict__)
    exec(src, ns)
    TB.CallTrigger.__await__ = ns["__await__"]


def _patch_order():
    import transactron.testing.testbenchio as TB
    import inspect, textwrap

    src = textwrap.dedent(inspect.getsource(TB.CallTrigger.__await__))
    old = "calls_it = (s.outputs if s.done else None for s in results[: len(only_calls)])"
    assert old in src
    src = src.replace(old, "calls_it = (s.outputs if s.done else None for s in reversed(results[: len(only_calls)]))")
    ns = dict(TB.__dict__)
    exec(src, ns)
    TB.CallTrigger.__await__ = ns["__await__"]


def _patch_mock_effects_always():
    import transactron.testing.method_mock as MM
    import inspect, textwrap

    src = textwrap.dedent(inspect.getsource(MM.MethodMock.effect_process))
    old = "            if done:\n"
    assert old in src, src
    src = src.replace(old, "            if True:\n")
    ns = dict(MM.__dict__)
    exec(src, ns)
    MM.MethodMock.effect_process = ns["effect_process"]


def _patch_mock_no_freeze():
    import transactron.testing.method_mock as MM
    import inspect, textwrap

    src = textwrap.dedent(inspect.getsource(MM.MethodMock.output_process))
    old = "        if not done or self._freeze:"
    assert old in src, src
    src = src.replace(old, "        if not done:")
    ns = dict(MM.__dict__)
    exec(src, ns)
    MM.MethodMock.output_process = ns["output_process"]


CANARIES = [
    {"name": "mock_effects_applied_even_when_method_did_not_run", "cfg": {"fn": "method_mock", "variant": "wrapper", "delay": 0, "order": "mock_first", "glitch": 1, "T": 3, "enable": [4, 8]}, "patch": _patch_mock_effects_always, "expect": r"method_mock\.contract"},
    {"name": "mock_recomputes_effects_after_the_clock_edge", "cfg": {"fn": "method_mock", "variant": "wrapper", "delay": 0, "order": "testbench_first", "glitch": 0, "T": 3, "enable": [4, 8]}, "patch": _patch_mock_no_freeze, "expect": r"method_mock\.contract"},
    {"name": "en_left_high_after_call_without_arguments", "cfg": {"fn": "call_trigger"}, "patch": _patch_disable, "expect": r"call_trigger\.contract"},
    {"name": "results_in_reverse_order", "cfg": {"fn": "call_trigger"}, "patch": _patch_order, "expect": r"call_trigger\.contract"},
]
