"""C43 — testbench helpers call methods exactly once (bounded stand-in, E-RT; MethodMock clause not applicable).

TestbenchIO.call / call_try / call_do / call_result and CallTrigger are run on a stub of the simulator context that
implements only Amaranth's assumed contract (engine/simstub.py), for EVERY readiness history of the called method of
up to 5 cycles and two output patterns:
  call_try returns None <=> the method did not run in that cycle, otherwise that cycle's outputs; `en` is high for exactly
  that cycle;  call returns the outputs of the first cycle in which the method ran; `en` is high from the first cycle up to
  and including that cycle and low afterwards, so exactly one call is performed;  call_do likewise after call_init;
  call_result never touches `en`;  CallTrigger returns calls and samples in declaration order, None for calls that did not run."""

import itertools

from amaranth import Signal
from transactron.lib.adapters import AdapterTrans
from transactron.testing.testbenchio import TestbenchIO, CallTrigger

from engine.simstub import StubSim, EndOfScript, drive

PROPERTY = "C43"
LEVEL = "exploration"
ENGINE = "E-RT"
TECHNIQUE = "run-time contracts on the real coroutines driven by a simulator stub, over exhaustively enumerated readiness histories (bounded)"
LEVEL_TEXT = "Bounded stand-in (not a proof): the real TestbenchIO/CallTrigger coroutines are executed against a stub implementing the simulator's assumed contract for every readiness history of <= 5 cycles."
LEVEL_NOTE = "Assumes Amaranth's simulator delivers samples and applies sets as the stub does (trusted dependency). The MethodMock clause of C43 is not applicable: it is a property of coroutine interleavings under Amaranth's scheduler (see DESIGN.md section 8)."
ASSUMPTIONS = [
    "simulator contract assumed (stub): a set() made before awaiting a tick is visible in that cycle; tick().sample() returns the values of that cycle",
    "bounded: readiness histories of <= 5 cycles, 2-bit outputs from two patterns",
    "MethodMock clause: not applicable (concurrency of three coroutines under Amaranth's simulator scheduler; no function-level contract expresses it without a model of that scheduler)",
]
T = 5


def configs(tier):
    return [{"fn": f} for f in ("call_try", "call", "call_do", "call_result", "call_trigger")]


def make_world(tb, ready, outs, log):
    ad = tb.adapter
    from amaranth import Value

    def world(t, env):
        if t >= len(ready):
            raise EndOfScript()
        en = env.get(id(ad.en), 0)
        done = 1 if (en and ready[t]) else 0
        env[id(ad.done)] = done
        env[id(Value.cast(ad.data_out))] = outs[t]
        if len(log) <= t:
            log.append({"en": en, "done": done, "out": outs[t], "arg": env.get(id(Value.cast(ad.data_in)), 0)})

    return world


def histories():
    for ready in itertools.product([0, 1], repeat=T):
        for pat in (0, 1):
            outs = [(t + 1 + 2 * pat) % 4 for t in range(T)]
            yield list(ready), outs


def run(cfg, ctx):
    fn = cfg["fn"]
    fails = []
    n = 0
    for ready, outs in histories():
        n += 1
        tb = TestbenchIO(AdapterTrans(i=[("x", 2)], o=[("y", 2)]))
        log = []
        sim = StubSim(make_world(tb, ready, outs, log))
        first = next((t for t in range(T) if ready[t]), None)
        try:
            if fn == "call_try":
                res = drive(tb.call_try(sim, x=2))
                exp = outs[0] if ready[0] else None
                got = None if res is None else res.y
                ok = got == exp and [c["en"] for c in log] == [1] and sim.env[id(tb.adapter.en)] == 0 and log[0]["arg"] == 2
            elif fn in ("call", "call_do"):
                if fn == "call_do":
                    tb.call_init(sim, x=1)
                    res = drive(tb.call_do(sim))
                else:
                    res = drive(tb.call(sim, {"x": 1}))
                ens = [c["en"] for c in log]
                dones = [c["done"] for c in log]
                ok = first is not None and res.y == outs[first] and len(log) == first + 1 and sim.env[id(tb.adapter.en)] == 0 and sum(dones) == 1 and all(c["arg"] == 1 for c in log if c["done"])
                # `call` lowers en between retries and raises it again before the next cycle: what matters is en in each cycle
                ok = ok and all(ens)
            elif fn == "call_result":
                sim.set(tb.adapter.en, 1)
                res = drive(tb.call_result(sim))
                exp = outs[0] if ready[0] else None
                ok = (None if res is None else res.y) == exp and sim.env[id(tb.adapter.en)] == 1
            else:
                tb2 = TestbenchIO(AdapterTrans(o=[("y", 2)]))  # a method without arguments: call(tb2) passes an empty dict
                extra = Signal(3, name="extra")
                log2 = []
                w1 = make_world(tb, ready, outs, log)
                w2 = make_world(tb2, list(reversed(ready)), [(o + 1) % 4 for o in outs], log2)

                def world(t, env):
                    w1(t, env)
                    w2(t, env)
                    env[id(extra)] = (t + 5) % 8

                sim = StubSim(world)
                res = drive(_await(CallTrigger(sim).call(tb, x=3).sample(extra).call(tb2).sample(tb2)))
                e1 = outs[0] if ready[0] else None
                e2 = (outs[0] + 1) % 4 if ready[T - 1] else None
                ok = (len(res) == 4 and (None if res[0] is None else res[0].y) == e1 and res[1] == 5 and (None if res[2] is None else res[2].y) == e2
                      and (None if res[3] is None else res[3].y) == e2 and sim.env[id(tb.adapter.en)] == 0 and sim.env[id(tb2.adapter.en)] == 0)
            if not ok:
                fails.append({"ready": ready, "outs": outs, "result": repr(res), "cycles": log})
        except EndOfScript:
            # the method never becomes ready within the script: call/call_do must still be waiting with en high in every cycle
            ok = fn in ("call", "call_do") and first is None and all(c["en"] for c in log) and len(log) == T
            if not ok:
                fails.append({"ready": ready, "outs": outs, "result": "ran past the end of the script", "cycles": log})
    ctx.functions.update({("TestbenchIO.call", "transactron/testing/testbenchio.py"), ("TestbenchIO.call_try", "transactron/testing/testbenchio.py"),
                          ("TestbenchIO.call_do", "transactron/testing/testbenchio.py"), ("TestbenchIO.call_result", "transactron/testing/testbenchio.py"),
                          ("CallTrigger.__await__", "transactron/testing/testbenchio.py"), ("CallTrigger.until_done", "transactron/testing/testbenchio.py")})
    ctx.bounded_result(f"{fn}.contract", n, n, fails, rule="every readiness history of 5 cycles (2^5) x 2 output patterns; all distinct; each drives the real coroutine to completion (or to the end of the script)",
                       samples=[{"ready": [0, 0, 1, 0, 1], "outs": [1, 2, 3, 0, 1]}], exhaustive=True)


async def _await(x):
    return await x


def _patch_disable():
    import transactron.testing.testbenchio as TB
    import inspect, textwrap

    src = textwrap.dedent(inspect.getsource(TB.CallTrigger.__await__))
    old = "        if data is not None:\n            tbio.disable(self.sim)"
    assert old in src, src
    src = src.replace(old, "        if data:\n            tbio.disable(self.sim)")
    ns = dict(TB.__dict__)
    exec(src, ns)
    TB.CallTrigger.__await__ = ns["__await__"]


def _patch_order():
    import transactron.testing.testbenchio as TB
    import inspect, textwrap

    src = textwrap.dedent(inspect.getsource(TB.CallTrigger.__await__))
    old = "calls_it = (s.outputs if s.done else None for s in results[: len(only_calls)])"
    assert old in src
    src = src.replace(old, "calls_it = (s.outputs if s.done else None for s in reversed(results[: len(only_calls)]))")
    ns = dict(TB.__dict__)
    exec(src, ns)
    TB.CallTrigger.__await__ = ns["__await__"]


CANARIES = [
    {"name": "en_left_high_after_call_without_arguments", "cfg": {"fn": "call_trigger"}, "patch": _patch_disable, "expect": r"call_trigger\.contract"},
    {"name": "results_in_reverse_order", "cfg": {"fn": "call_trigger"}, "patch": _patch_order, "expect": r"call_trigger\.contract"},
]
