"""C40 — structured assignment copies exactly the selected fields.

Layout pairs are enumerated from a small grammar (structs of depth <= 2, arrays, leaves of widths 1-2 signed/unsigned;
each side as a View, a dict or a flat value; Const and int leaves on the right) x field selections (COMMON / LHS / RHS /
ALL, explicit iterables, nested mappings).
E-RT (bounded over layouts): `assign` raises  <=>  the specification predicate written from the docstring says so
(no common field, field missing on one side, shape mismatch, selection on non-structures, ...).
E-HW (all values): when it returns, the statements are placed in a module whose LHS signals have init pattern P; for
P = all-zeros and all-ones it is proved for ALL right-hand-side values that every selected LHS leaf equals its RHS
leaf and every other LHS bit still equals P (so nothing else is assigned, not even a constant)."""

import itertools

import z3
from amaranth import Signal, Value, signed, unsigned, C
from amaranth.lib import data

from transactron.utils.assign import assign, AssignType
from engine.comb import Comb
from engine.hw import Recorder

PROPERTY = "C40"
LEVEL = "proof"
ENGINE = "E-RT over layouts + E-HW over values"
TECHNIQUE = "run-time contract on assign() over an enumerated layout grammar (raises iff spec), and netlist proof over all values that exactly the selected fields are copied"
ASSUMPTIONS = [
    "layout pairs and field selections are bounded to the enumerated grammar (bounded over layouts, proved over values per layout pair)",
    "the specification of which pairs are rejected is written from the assign() docstring (designs of depth <= 2)",
]

# descriptions: ("u", w) | ("s", w) | ("st", {name: desc}) | ("ar", desc, n)
U1, U2, S2 = ("u", 1), ("u", 2), ("s", 2)
DESCS = [
    ("st", {"a": U1}), ("st", {"a": U1, "b": U2}), ("st", {"b": U2, "c": S2}), ("st", {"a": U2}), ("st", {"a": U1, "b": U2, "c": S2}),
    ("st", {"p": ("st", {"a": U1, "b": U2}), "q": U2}), ("st", {"p": ("st", {"a": U1}), "q": U2}), ("st", {"p": ("st", {"b": U2, "c": S2})}),
    ("ar", U2, 2), ("ar", ("st", {"a": U1}), 2), U2, U1, S2,
    # the same field name with another signedness / width, so that a signed View field meets a differently shaped dict entry
    ("st", {"c": U2}), ("st", {"c": ("s", 1)}), ("st", {"b": U2, "c": ("s", 3)}),
]
MODES = ["COMMON", "LHS", "RHS", "ALL"]


def shape_of_desc(d):
    if d[0] == "u":
        return unsigned(d[1])
    if d[0] == "s":
        return signed(d[1])
    if d[0] == "st":
        return data.StructLayout({k: shape_of_desc(v) for k, v in d[1].items()})
    return data.ArrayLayout(shape_of_desc(d[1]), d[2])


def keys_of(d):
    if d[0] == "st":
        return list(d[1].keys())
    if d[0] == "ar":
        return list(range(d[2]))
    return None


def sub(d, k):
    return d[1][k] if d[0] == "st" else d[1]


def width(d):
    if d[0] in "us":
        return d[1]
    if d[0] == "st":
        return sum(width(v) for v in d[1].values())
    return width(d[1]) * d[2]


class SpecError(Exception):
    pass


def spec(ld, lrep, rd, rrep, fields):
    """Returns list of (lhs path, rhs path) of leaf copies, or raises SpecError.
    rep: 'view' | 'dict' | 'flat' (flat: a plain Signal / int of the leaf description; only for leaves)."""
    lk = keys_of(ld) if lrep != "flat" else None
    rk = keys_of(rd) if rrep not in ("flat", "int") else None
    if lk is not None and rk is not None:
        if fields == "COMMON":
            names = [k for k in lk if k in rk]
        elif fields == "LHS":
            names = list(lk)
        elif fields == "RHS":
            names = list(rk)
        elif fields == "ALL":
            names = list(dict.fromkeys(list(lk) + list(rk)))
        else:
            names = list(fields)  # iterable of names or mapping
        if not names and (lk or rk):
            raise SpecError("no common fields")
        out = []
        for n in names:
            if n not in lk or n not in rk:
                raise SpecError("field missing")
            sf = fields[n] if isinstance(fields, dict) else ("ALL" if not isinstance(fields, str) else fields)
            lsub, rsub = sub(ld, n), sub(rd, n)
            lr = lrep if keys_of(lsub) is not None else "leafof_" + lrep
            rr = rrep if keys_of(rsub) is not None else "leafof_" + rrep
            for lp, rp in spec(lsub, "view" if lrep == "view" else ("dict" if keys_of(lsub) is not None else "flat"), rsub,
                               "view" if rrep in ("view", "const") else ("dict" if keys_of(rsub) is not None else rrep_leaf(rrep)), sf):
                out.append(((n,) + lp, (n,) + rp))
        return out
    # at least one side is not field-containing
    if not isinstance(fields, str):
        raise SpecError("fields on non-structures")
    # a Python dict/list is not a value: it can only be assigned against another field-containing object
    if (lrep == "dict" and keys_of(ld) is not None) or (rrep == "dict" and keys_of(rd) is not None):
        raise SpecError("unsupported assignment (dict against a non-structure)")
    # unwrap single-field structures
    lpath, rpath = (), ()
    while lrep != "flat" and keys_of(ld) is not None and len(keys_of(ld)) == 1:
        k = keys_of(ld)[0]
        lpath += (k,)
        ld = sub(ld, k)
        if keys_of(ld) is None:
            lrep = "flat" if lrep == "dict" else "viewleaf"
    while rrep not in ("flat", "int") and keys_of(rd) is not None and len(keys_of(rd)) == 1:
        k = keys_of(rd)[0]
        rpath += (k,)
        rd = sub(rd, k)
        if keys_of(rd) is None:
            rrep = "flat" if rrep == "dict" else "viewleaf"
    if (lrep == "dict" and keys_of(ld) is not None) or (rrep == "dict" and keys_of(rd) is not None):
        raise SpecError("unsupported assignment (dict against a non-structure)")
    if rrep == "int":
        if keys_of(ld) is not None:
            raise SpecError("shape mismatch")  # a View against a bare int
        return [(lpath, rpath)]
    if shape_of_desc(ld) != shape_of_desc(rd):
        raise SpecError("shape mismatch")
    return [(lpath, rpath)]


def rrep_leaf(rrep):
    return "int" if rrep == "dict_int" else "flat"


def build(d, rep, name, sigs):
    """real object for a description. Collects the Signals created in `sigs` (list of (path, Signal/View))."""
    if rep == "view":
        s = Signal(shape_of_desc(d), name=name)
        sigs.append(s)
        return s
    if rep == "const":
        return None  # built later from a value
    if rep == "flat":
        s = Signal(shape_of_desc(d), name=name)
        sigs.append(s)
        return s
    # dict: nested dicts down to leaf Signals
    if keys_of(d) is None:
        s = Signal(shape_of_desc(d), name=name)
        sigs.append(s)
        return s
    if d[0] == "ar":
        return [build(d[1], "dict", f"{name}_{i}", sigs) for i in range(d[2])]
    return {k: build(v, "dict", f"{name}_{k}", sigs) for k, v in d[1].items()}


def leaf_value(obj, path):
    for k in path:
        obj = obj[k]
    return obj


def cases(tier):
    out = []
    structs = [d for d in DESCS if d[0] in ("st", "ar")]
    for ld in DESCS:
        for rd in DESCS:
            for lrep in (["view", "dict"] if keys_of(ld) is not None else ["flat"]):
                for rrep in (["view", "dict"] if keys_of(rd) is not None else ["flat"]):
                    for mode in MODES:
                        out.append((ld, lrep, rd, rrep, mode))
    # explicit iterables and nested mappings on struct pairs
    for ld in structs:
        for rd in structs:
            if ld[0] != "st" or rd[0] != "st":
                continue
            names = list(dict.fromkeys(list(ld[1]) + list(rd[1])))
            for r in (1, 2):
                for sel in itertools.combinations(names, r):
                    out.append((ld, "view", rd, "view", list(sel)))
                    out.append((ld, "dict", rd, "view", list(sel)))
            if "p" in ld[1] and "p" in rd[1]:
                for inner in ("COMMON", "ALL", "LHS"):
                    out.append((ld, "view", rd, "view", {"p": inner}))
                    out.append((ld, "view", rd, "dict", {"p": inner, "q": "ALL"}))
    if tier == "quick":
        out = out[::4]
    return out


def configs(tier):
    n = len(cases(tier))
    chunk = 40
    return [{"chunk": i, "size": chunk} for i in range(0, n, chunk)]


def conv_fields(f):
    if isinstance(f, str):
        return AssignType[f]
    if isinstance(f, dict):
        return {k: conv_fields(v) for k, v in f.items()}
    return list(f)


def run(cfg, ctx):
    cs = cases(ctx.tier)[cfg["chunk"] : cfg["chunk"] + cfg["size"]]
    fails = []
    n_ok = n_err = 0
    for idx, (ld, lrep, rd, rrep, fields) in enumerate(cs):
        tag = f"case{cfg['chunk'] + idx}"
        try:
            exp = spec(ld, lrep, rd, rrep, fields)
            exp_err = None
        except SpecError as e:
            exp, exp_err = None, str(e)
        for P in (0, 1):
            lsigs, rsigs = [], []
            lhs = build(ld, lrep, "l", lsigs)
            rhs = build(rd, rrep, "r", rsigs)
            for s in lsigs:
                pass
            # init pattern on the LHS signals
            lsigs2 = []
            lhs = build_with_init(ld, lrep, "l", lsigs2, P)
            with Recorder() as rec:  # the /repo functions that ran inside assign() (reported as functions under contract)
                try:
                    stmts = list(assign(lhs, rhs, fields=conv_fields(fields)))
                    err = None
                except (ValueError, KeyError, TypeError) as e:
                    stmts, err = None, f"{type(e).__name__}: {e}"
            ctx.functions.update(rec.functions)
            if (err is None) != (exp_err is None):
                fails.append({"case": tag, "lhs": repr((ld, lrep)), "rhs": repr((rd, rrep)), "fields": repr(fields), "spec": exp_err or "accepts", "assign": err or "accepted"})
                break
            if err is not None:
                n_err += 1
                break
            n_ok += 1
            ins = [Value.cast(s) for s in rsigs]
            outs = [Value.cast(s) for s in lsigs2]

            def body(m, stmts=stmts, outs=outs):
                m.d.comb += stmts
                return outs

            c = Comb(ins, body)
            hw = c.hw
            if P == 0 and idx % 8 == 0:
                ctx.use(hw, xval_cycles=4)
            else:
                ctx.functions.update(hw.functions())
            # every LHS bit: selected leaf -> equals RHS leaf; otherwise equals P
            assigned = {}
            for lp, rp in exp:
                ll = Value.cast(leaf_value(lhs, lp))
                rl = leaf_value(rhs, rp)
                assigned[id(ll)] = (ll, rl)
            fs = []
            lhs_terms = {id(s): hw.sig(s) for s in lsigs2}
            covered_bits = 0
            for lp, rp in exp:
                ll = Value.cast(leaf_value(lhs, lp))
                rl = Value.cast(leaf_value(rhs, rp))
                lt, rt = hw.sig(ll), hw.sig(rl)
                if lt.size() != rt.size():
                    rt = z3.Extract(lt.size() - 1, 0, rt) if rt.size() > lt.size() else (z3.SignExt(lt.size() - rt.size(), rt) if rl.shape().signed else z3.ZeroExt(lt.size() - rt.size(), rt))
                fs.append(lt == rt)
                covered_bits += lt.size()
            # untouched bits keep the init pattern: total number of LHS bits equal to P-pattern outside the selected leaves
            sel_nets = set()
            for lp, rp in exp:
                ll = Value.cast(leaf_value(lhs, lp))
                for net in hw.ts.nets(ll):
                    sel_nets.add(int(net))
            for s in lsigs2:
                nets = hw.ts.nets(s)
                term = hw.sig(s)
                for b, net in enumerate(nets):
                    if int(net) not in sel_nets:
                        fs.append(z3.Extract(b, b, term) == P)
            ctx.prove(f"{tag}.P{P}.exactly_selected_fields_copied", z3.And(*fs) if fs else z3.BoolVal(True), hw=hw)
    ctx.bounded_result("assign.raises_iff_spec", len(cs), len(cs), fails, rule="each (lhs layout, lhs representation, rhs layout, rhs representation, field selection) tuple of the grammar is one case; all distinct",
                       samples=[{"lhs": repr(cs[0][0]), "rhs": repr(cs[0][2]), "fields": repr(cs[0][4])}] if cs else [], exhaustive=True)
    ctx.notes.append(f"chunk {cfg['chunk']}: {n_ok} accepted (value-level proofs), {n_err} rejected as specified")


def build_with_init(d, rep, name, sigs, P):
    ones = lambda shp: -1 if getattr(shp, "signed", False) else (1 << shp.width) - 1 if hasattr(shp, "width") else None
    if rep in ("view", "flat") or keys_of(d) is None:
        shp = shape_of_desc(d)
        if isinstance(shp, data.Layout):
            init = shp.from_bits((1 << shp.size) - 1 if P else 0)
            s = Signal(shp, name=name, init=init)
        else:
            s = Signal(shp, name=name, init=(ones(shp) if P else 0))
        sigs.append(s)
        return s
    if d[0] == "ar":
        return [build_with_init(d[1], "dict", f"{name}_{i}", sigs, P) for i in range(d[2])]
    return {k: build_with_init(v, "dict", f"{name}_{k}", sigs, P) for k, v in d[1].items()}


def _patch_common():
    import sys
    import transactron.utils.assign  # noqa: F401

    AS = sys.modules["transactron.utils.assign"]
    import inspect, textwrap

    src = textwrap.dedent(inspect.getsource(AS.assign))
    old = "names = lhs_fields & rhs_fields"
    assert old in src
    src = src.replace(old, "names = lhs_fields | rhs_fields if len(lhs_fields) == len(rhs_fields) else lhs_fields & rhs_fields")
    ns = dict(AS.__dict__)
    exec(src, ns)
    AS.assign = ns["assign"]
    import contracts.c40 as me

    me.assign = ns["assign"]


def _patch_shape_check():
    import sys
    import transactron.utils.assign  # noqa: F401

    AS = sys.modules["transactron.utils.assign"]
    import inspect, textwrap

    src = textwrap.dedent(inspect.getsource(AS.assign))
    old = "if shape_of(lhs) != shape_of(rhs):"
    assert old in src
    src = src.replace(old, "if Shape.cast(shape_of(lhs)).width != Shape.cast(shape_of(rhs)).width:")
    ns = dict(AS.__dict__)
    exec(src, ns)
    AS.assign = ns["assign"]
    import contracts.c40 as me

    me.assign = ns["assign"]


CANARIES = [
    {"name": "common_becomes_all_for_equal_sized_layouts", "cfg": {"chunk": 0, "size": 2000}, "patch": _patch_common, "expect": r"raises_iff_spec|exactly_selected"},
    {"name": "shape_check_ignores_signedness_and_structure", "cfg": {"chunk": 0, "size": 2000}, "patch": _patch_shape_check, "expect": r"raises_iff_spec"},
]
