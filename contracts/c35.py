"""C35 — the profiler records what actually ran (E-PY + bounded run-time contracts).

ProfileData.make on generated designs: ids injective; transaction_conflicts == the oracle's SpecConf; method_parents ==
  the bodies with a call site of the method; transactions_by_method == the transactions reaching it.
CycleProfile.make executed on symbolic Boolean samples (engine/pysym.py, every feasible path) for the structures of those
  designs: under the precondition that a running method has a running parent (C04), running.keys() is exactly the set
  of running transactions and methods, every running method is mapped to a running parent, and a transaction t is in
  `locked` only if ready and runnable and not run and locked[t] conflicts with t and runs — and whenever that is the
  case for some conflicting transaction, t is in `locked`.
Profile.analyze_transactions(recursive=False): for every profile of <= 3 cycles: stat.run = #{c | t in c.running},
  stat.locked = #{c | t in c.locked} (bounded, exhaustive).
profiler_process on the simulator stub: the recorded cycle profile is CycleProfile.make of exactly the sampled bits."""

import itertools

import z3
from transactron.profiler import ProfileData, CycleProfile, ProfileSamples, TransactionSamples, MethodSamples, Profile, ProfileInfo
from transactron.testing.profiler import profiler_process

from contracts import corelib
from designs import family
from designs.build import Built
from designs.oracle import Oracle
from engine import pysym
from engine.simstub import StubSim, EndOfScript, drive

PROPERTY = "C35"
LEVEL = "proof"
ENGINE = "E-PY + E-RT"
TECHNIQUE = "CycleProfile.make run on symbolic Boolean samples, one VC per path (z3), per design structure; ProfileData.make / analyze_transactions / profiler_process by run-time contracts (bounded)"
ASSUMPTIONS = [
    "design structures are bounded to the listed curated designs (<= 4 transactions, <= 3 methods); per structure CycleProfile.make is covered for ALL sample valuations (every feasible path)",
    "samples are consistent with C04: a running method has a running parent (precondition of the 'mapped to a running caller' clause)",
    "analyze_transactions and profiler_process: bounded stand-ins (<= 3 cycles); the simulator is assumed to deliver samples as the stub does",
]
DESIGNS = ["two_callers", "diamond", "nonexclusive_ancestor", "chain3", "conflict_tt", "three_way", "nested_bodies", "priority_chain"]


def configs(tier):
    out = []
    for dname in DESIGNS:
        for part in ("data", "cycle", "analyze", "process"):
            if tier == "quick" and part in ("analyze", "process") and dname not in ("two_callers", "chain3", "conflict_tt"):
                continue
            out.append({"design": dname, "part": part})
    return out


def run(cfg, ctx):
    spec = family.with_scheduler(family.curated()[cfg["design"]], "eager")
    b = Built(spec)
    o = Oracle(b)
    mgr = b.manager
    data, get_id = ProfileData.make(mgr)
    d = b.d
    # map ids <-> names through the Body objects
    body_of = {name: (bi.obj._body if bi.branch_of is None else bi.obj) for name, bi in d.bodies.items()}
    ids = {name: get_id(body) for name, body in body_of.items()}
    names = {v: k for k, v in ids.items()}
    tids = [ids[t] for t in o.transactions]
    mids = [ids[m] for m in o.methods]
    ctx.functions.update({("ProfileData.make", "transactron/profiler.py"), ("CycleProfile.make", "transactron/profiler.py"), ("Profile.analyze_transactions", "transactron/profiler.py"),
                          ("profiler_process", "transactron/testing/profiler.py")})
    part = cfg["part"]
    if part == "data":
        conf = o.spec_conf()
        fails = []
        if len(set(ids.values())) != len(ids) or set(ids.values()) != set(data.transactions_and_methods):
            fails.append({"what": "ids not injective / not matching", "ids": ids})
        for t in o.transactions:
            got = sorted(names[i] for i in data.transaction_conflicts[ids[t]] if names[i] != t)
            if got != sorted(conf[t]):
                fails.append({"what": "transaction_conflicts", "t": t, "got": got, "oracle": sorted(conf[t])})
            if not data.transactions_and_methods[ids[t]].is_transaction:
                fails.append({"what": "is_transaction flag", "t": t})
        for m in o.methods:
            parents = sorted({s.caller.name for s in o.sites_by_target.get(m, [])})
            got = sorted(names[i] for i in data.method_parents[ids[m]])
            if got != parents:
                fails.append({"what": "method_parents", "m": m, "got": got, "oracle": parents})
            tb = sorted(o.transactions_for(m))
            got = sorted(names[i] for i in data.transactions_by_method[ids[m]])
            if got != tb:
                fails.append({"what": "transactions_by_method", "m": m, "got": got, "oracle": tb})
        ctx.bounded_result("profile_data.matches_design", 1 + len(o.transactions) + 2 * len(o.methods), 1 + len(o.transactions) + 2 * len(o.methods), fails,
                           rule="one design; one comparison per transaction (conflicts) and two per method (parents, calling transactions) plus the id table", samples=[{"design": cfg["design"], "ids": ids}], exhaustive=True)
    elif part == "cycle":
        ready = {t: z3.Bool(f"ready_{names[t]}") for t in tids}
        runnable = {t: z3.Bool(f"runnable_{names[t]}") for t in tids}
        runv = {i: z3.Bool(f"run_{names[i]}") for i in tids + mids}

        def fn():
            samples = ProfileSamples()
            for t in tids:
                samples.transactions[t] = TransactionSamples(pysym.SBool(ready[t]), pysym.SBool(runnable[t]), pysym.SBool(runv[t]))
            for m in mids:
                samples.methods[m] = MethodSamples(pysym.SBool(runv[m]))
            return CycleProfile.make(samples, data)

        paths = pysym.explore(fn)
        # precondition: consistent with C04
        pre = z3.And(*[z3.Implies(runv[m], z3.Or(*[runv[p] for p in data.method_parents[m]]) if data.method_parents[m] else z3.BoolVal(False)) for m in mids]) if mids else z3.BoolVal(True)
        pcs = []
        for k, p in enumerate(paths):
            pc = z3.And(*p["pc"]) if p["pc"] else z3.BoolVal(True)
            pcs.append(pc)
            kind, cp = p["result"]
            if kind != "ok":
                ctx.prove(f"path{k}.does_not_raise", z3.BoolVal(False), pre=[pre, pc], note=repr(cp))
                continue
            fs = []
            for i in tids + mids:
                fs.append(runv[i] == z3.BoolVal(i in cp.running))
            for m in mids:
                if m in cp.running:
                    par = cp.running[m]
                    fs.append(z3.BoolVal(par in data.method_parents[m]))
                    fs.append(runv[par] if par is not None else z3.BoolVal(False))
            for t in tids:
                blocked_by_some = z3.Or(*[runv[c] for c in data.transaction_conflicts[t]]) if data.transaction_conflicts[t] else z3.BoolVal(False)
                should = z3.And(ready[t], runnable[t], z3.Not(runv[t]), blocked_by_some)
                fs.append(should == z3.BoolVal(t in cp.locked))
                if t in cp.locked:
                    c = cp.locked[t]
                    fs.append(z3.BoolVal(c in data.transaction_conflicts[t]))
                    fs.append(runv[c])
                    fs.append(z3.BoolVal(cp.running.get(t, 0) is not None or t not in cp.running))
            for t in tids:
                if t in cp.running:
                    fs.append(z3.BoolVal(cp.running[t] is None))
            ctx.prove(f"path{k}.cycle_profile_matches_samples", z3.And(*fs), pre=[pre, pc])
        ctx.prove("paths_cover_all_sample_valuations", z3.Or(*pcs))
        ctx.cover("precondition", pre)
    elif part == "analyze":
        infos = data.transactions_and_methods
        fails, n = [], 0
        opts = {}
        for t in tids:
            opts[t] = [("none", None), ("run", None)] + [("locked", c) for c in data.transaction_conflicts[t]]
        T = tids[:3]
        percycle = list(itertools.product(*[opts[t] for t in T]))
        for L in (0, 1, 2, 3):
            if len(percycle) ** L > 40000:
                break
            for cyc in itertools.product(percycle, repeat=L):
                n += 1
                prof = Profile(transactions_and_methods=infos)
                for states in cyc:
                    cp = CycleProfile()
                    for t, (st, c) in zip(T, states):
                        if st == "run":
                            cp.running[t] = None
                        elif st == "locked":
                            cp.locked[t] = c
                    prof.cycles.append(cp)
                stats = prof.analyze_transactions()
                by_name = {s.stat.name: s.stat for s in stats}
                for t in T:
                    st = by_name[infos[t].name]
                    er = sum(1 for c in prof.cycles if t in c.running)
                    el = sum(1 for c in prof.cycles if t in c.locked)
                    if (st.run, st.locked) != (er, el):
                        fails.append({"t": names[t], "cycles": [[s for s, _ in states] for states in cyc], "got": (st.run, st.locked), "expected": (er, el)})
        ctx.bounded_result("analyze_transactions.counts_cycles", n, n, fails, rule="every profile of 0-3 cycles in which each of (up to) three transactions is running / locked by one of its conflicts / idle",
                           samples=[{"design": cfg["design"]}], exhaustive=True)
    else:
        from transactron.core.manager import MethodMap
        from amaranth import Value

        mm = MethodMap(mgr.transactions, mgr.methods)
        ts_ = list(mm.transactions)
        ms_ = list(mm.methods)
        fails, n = [], 0
        nb = 3 * len(ts_) + len(ms_)
        vals = [0, (1 << nb) - 1, 0b101101101101 & ((1 << nb) - 1), 0b010110011010 & ((1 << nb) - 1), 0b111000111000 & ((1 << nb) - 1)]
        for seq in itertools.product(vals, repeat=2):
            n += 1

            def world(t, env, seq=seq):
                if t >= len(seq):
                    raise EndOfScript()
                v = seq[t]
                for k, tr in enumerate(ts_):
                    env[id(tr.ready)] = (v >> (3 * k)) & 1
                    env[id(tr.runnable)] = (v >> (3 * k + 1)) & 1
                    env[id(tr.run)] = (v >> (3 * k + 2)) & 1
                for k, me in enumerate(ms_):
                    env[id(me.run)] = (v >> (3 * len(ts_) + k)) & 1

            prof = Profile()
            drive(profiler_process(mgr, prof)(StubSim(world)))
            exp = []
            for v in seq:
                s = ProfileSamples()
                for k, tr in enumerate(ts_):
                    s.transactions[get_id(tr)] = TransactionSamples(bool((v >> (3 * k)) & 1), bool((v >> (3 * k + 1)) & 1), bool((v >> (3 * k + 2)) & 1))
                for k, me in enumerate(ms_):
                    s.methods[get_id(me)] = MethodSamples(bool((v >> (3 * len(ts_) + k)) & 1))
                try:
                    exp.append(CycleProfile.make(s, data))
                except StopIteration:
                    exp.append("make raised StopIteration")
            if prof.cycles != exp:
                fails.append({"samples": [bin(v) for v in seq], "got": repr(prof.cycles)[:200], "expected": repr(exp)[:200]})
        ctx.bounded_result("profiler_process.feeds_sampled_bits", n, n, fails, rule="25 two-cycle histories over 5 sample patterns of all ready/runnable/run bits", samples=[{"design": cfg["design"]}], exhaustive=False)


def _patch_locked():
    import transactron.profiler as PR
    import inspect, textwrap

    src = textwrap.dedent(inspect.getsource(PR.CycleProfile.make))
    old = "elif transaction_samples.ready and transaction_samples.runnable:"
    assert old in src
    src = src.replace(old, "elif transaction_samples.ready:")
    ns = dict(PR.__dict__)
    exec(src, ns)
    PR.CycleProfile.make = staticmethod(ns["make"])


def _patch_analyze():
    import transactron.profiler as PR
    import inspect, textwrap

    src = textwrap.dedent(inspect.getsource(PR.Profile.analyze_transactions))
    old = "stats[i].stat.locked += 1"
    assert old in src
    src = src.replace(old, "stats[c.locked[i]].stat.locked += 1")
    ns = dict(PR.__dict__)
    exec(src, ns)
    PR.Profile.analyze_transactions = ns["analyze_transactions"]


CANARIES = [
    {"name": "locked_without_runnable", "cfg": {"design": "two_callers", "part": "cycle"}, "patch": _patch_locked, "expect": r"cycle_profile_matches"},
    {"name": "locked_cycles_credited_to_the_blocker", "cfg": {"design": "conflict_tt", "part": "analyze"}, "patch": _patch_analyze, "expect": r"analyze_transactions", "error_ok": True},
]
