"""C39 — RoundRobin arbiters grant fairly.

OneHotRoundRobin(n): wf: grant_reg one-hot; requests != 0 => grant one-hot, a requester, valid;
requests == 0 => not valid (no grant is signalled).
RoundRobin(count=n) (registered outputs), ghost prev(requests): wf: grant < n, valid == (prev_requests != 0),
valid => prev_requests[grant].
Fairness for both as a safety property with ghost wait counters w_i (cycles requester i has been requesting
without being served): ranking invariant w_i + rank_i(last grant) <= n-1, rank_i(g) = (i-g-1) mod n, hence
w_i <= n-1: a continuously requesting input is served within n cycles, from every state satisfying wf."""

import z3
from transactron.utils.amaranth_ext.elaboratables import OneHotRoundRobin, RoundRobin

from engine.hw import HW
from spec.seq import N, NW, bit, lt, le, nmod

PROPERTY = "C39"
HISTORY_LEMMAS = ['served_within']  # lemmas/History.lean: one-cycle contracts => history-level statement (Lean 4)
LEVEL = "proof"
ASSUMPTIONS = [
    "count swept as listed; unbounded in request histories (induction over wf plus the wait-counter ranking invariant)",
    "RoundRobin has registered outputs: 'active requester' refers to the requests sampled in the previous cycle (ghost register prev_requests)",
    "requests == 0: OneHotRoundRobin keeps driving the last grant on `grant` with valid low; 'grants none' is read as valid low",
]


def configs(tier):
    ns = range(1, 9) if tier == "quick" else range(1, 13)
    return [{"kind": k, "n": n} for k in ("onehot", "binary") for n in ns]


def onehot(x):
    return z3.And(x != 0, (x & (x - 1)) == 0)


def idx_of(x, n):
    r = N(0)
    for i in range(n):
        r = z3.If(bit(x, i), N(i), r)
    return r


def rank(g, i, n):
    return nmod(N(i) + N(2 * n) - g - 1, n)


def run(cfg, ctx):
    n = cfg["n"]
    if cfg["kind"] == "onehot":
        rr = OneHotRoundRobin(n)
        hw = HW(rr, [rr.requests], [rr.grant, rr.valid], capture=(OneHotRoundRobin,))
        greg = hw.rec.locals_of(rr)["grant_reg"]
        g, gn = hw.sig(greg), hw.nxt(greg)
        req, grant, valid = hw.sig(rr.requests), hw.sig(rr.grant), hw.b(rr.valid)
        w = [hw.ghost(f"w{i}", NW) for i in range(n)]
        served = [z3.And(bit(grant, i), valid) for i in range(n)]
        for i in range(n):
            hw.set_ghost_next(w[i], z3.If(z3.And(bit(req, i), z3.Not(served[i])), w[i] + 1, N(0)))
        ctx.use(hw)
        wn = [hw.gnext(x) for x in w]

        def inv(g_, w_):
            return z3.And(onehot(g_), *[z3.And(le(w_[i], n - 1), le(w_[i] + rank(idx_of(g_, n), i, n), n - 1)) for i in range(n)])

        pre = [inv(g, w)]
        ctx.prove("init.wf", hw.ts.at_init(inv(g, w)))
        ctx.prove("grant.onehot_requester_when_requested", z3.Implies(req != 0, z3.And(onehot(grant), valid, (grant & req) == grant)), pre=pre, hw=hw)
        ctx.prove("grant.none_when_no_request", z3.Implies(req == 0, z3.Not(valid)), pre=pre, hw=hw)
        ctx.prove("step.wf", inv(gn, wn), pre=pre, hw=hw)
        ctx.prove("wait_bound", z3.And(*[le(w[i], n - 1) for i in range(n)]), pre=pre, hw=hw)
        ctx.prove("served_resets_wait", z3.And(*[z3.Implies(served[i], wn[i] == 0) for i in range(n)]), pre=pre, hw=hw)
        ctx.cover("all_request", z3.And(*pre, req == (1 << n) - 1), hw=hw)
        if n > 1:
            ctx.cover("waited_n-1", z3.And(*pre, w[0] == n - 1), hw=hw)
    else:
        rr = RoundRobin(count=n)
        hw = HW(rr, [rr.requests], [rr.grant, rr.valid])
        nat = lambda t: N(t) if t is not None else N(0)
        has_g = len(rr.grant) > 0
        g = nat(hw.sig(rr.grant)) if has_g else N(0)
        gn = nat(hw.nxt(rr.grant)) if has_g else N(0)
        valid, validn = hw.b(rr.valid), hw.nxt(rr.valid) == 1
        req = hw.sig(rr.requests)
        pr = hw.ghost("prev_requests", n)
        hw.set_ghost_next(pr, req)
        w = [hw.ghost(f"w{i}", NW) for i in range(n)]
        served = [z3.And(gn == i, bit(req, i)) for i in range(n)]  # requester i is the one granted for this cycle's requests
        for i in range(n):
            hw.set_ghost_next(w[i], z3.If(z3.And(bit(req, i), z3.Not(served[i])), w[i] + 1, N(0)))
        ctx.use(hw)
        wn = [hw.gnext(x) for x in w]

        def inv(g_, valid_, pr_, w_):
            sel = z3.Or(*[z3.And(g_ == i, bit(pr_, i)) for i in range(n)])
            return z3.And(lt(g_, n), valid_ == (pr_ != 0), z3.Implies(valid_, sel), *[z3.And(le(w_[i], n - 1), le(w_[i] + rank(g_, i, n), n - 1)) for i in range(n)])

        pre = [inv(g, valid, pr, w)]
        ctx.prove("init.wf", hw.ts.at_init(inv(g, valid, pr, w)))
        ctx.prove("step.wf", inv(gn, validn, req, wn), pre=pre, hw=hw)
        ctx.prove("grant.designates_requester_when_valid", z3.Implies(valid, z3.Or(*[z3.And(g == i, bit(pr, i)) for i in range(n)])), pre=pre, hw=hw)
        ctx.prove("valid_iff_requested", valid == (pr != 0), pre=pre, hw=hw)
        ctx.prove("grant.unchanged_without_requests", z3.Implies(req == 0, gn == g), pre=pre, hw=hw)
        ctx.prove("wait_bound", z3.And(*[le(w[i], n - 1) for i in range(n)]), pre=pre, hw=hw)
        ctx.cover("all_request", z3.And(*pre, req == (1 << n) - 1), hw=hw)
        if n > 1:
            ctx.cover("waited_n-1", z3.And(*pre, w[0] == n - 1), hw=hw)


def _patch_onehot():
    import transactron.utils.amaranth_ext.elaboratables as E
    import inspect, textwrap

    src = textwrap.dedent(inspect.getsource(E.OneHotRoundRobin.elaborate))
    # search order loses the wrap-around part: requesters above the current grant are never considered first
    src = src.replace("itertools.chain(reversed(range(i)), reversed(range(i + 1, self.count)))", "itertools.chain(reversed(range(i + 1, self.count)), reversed(range(i)))")
    ns = dict(E.__dict__)
    exec(src, ns)
    E.OneHotRoundRobin.elaborate = ns["elaborate"]


def _patch_binary():
    import transactron.utils.amaranth_ext.elaboratables as E
    import inspect, textwrap

    src = textwrap.dedent(inspect.getsource(E.RoundRobin.elaborate))
    src = src.replace("for succ in reversed(range(i + 1, self.count)):", "for succ in range(i + 1, self.count):")
    ns = dict(E.__dict__)
    exec(src, ns)
    E.RoundRobin.elaborate = ns["elaborate"]


CANARIES = [
    {"name": "onehot_priority_to_lower_indices", "cfg": {"kind": "onehot", "n": 4}, "patch": _patch_onehot, "expect": r"step\.wf"},
    {"name": "binary_picks_farthest_successor", "cfg": {"kind": "binary", "n": 4}, "patch": _patch_binary, "expect": r"step\.wf"},
]
