"""C30 — InputSampler and OutputBuffer follow their trigger.

All eight (edge, polarity, synchronize) settings. Ghost history registers t1 = prev(trigger), t2 = prev(t1),
d1 = prev(data) (initially 0, like the inputs before the first cycle). wf ties the internal synchroniser and
edge-detector registers to the ghosts. With eff = synchronize ? t1 : trigger, effprev = synchronize ? t2 : t1
and level p = polarity:   ready <=> (edge ? eff == p and effprev != p : eff == p);
get returns (synchronize ? d1 : data); put.run => data' = argument, otherwise data' = data."""

import z3
from transactron.lib.basicio import InputSampler, OutputBuffer

from engine.th import TH

PROPERTY = "C30"
LEVEL = "proof"
ASSUMPTIONS = [
    "the trigger (and data) inputs are 0 before the first cycle (this is what the init values of the library's synchroniser and edge-detector registers encode)",
    "2-field data layout; all 8 trigger configurations for both components; unbounded in trigger/data histories",
]
LAYOUT = [("a", 1), ("b", 2)]


def configs(tier):
    return [{"kind": k, "edge": e, "polarity": p, "synchronize": s} for k in ("sampler", "buffer") for e in (False, True) for p in (False, True) for s in (False, True)]


def run(cfg, ctx):
    edge, pol, sync = cfg["edge"], cfg["polarity"], cfg["synchronize"]
    cls = InputSampler if cfg["kind"] == "sampler" else OutputBuffer
    dut = cls(LAYOUT, edge=edge, polarity=pol, synchronize=sync)
    meth = dut.get if cfg["kind"] == "sampler" else dut.put
    data_sig = dut.data.as_value()
    extra_in = [dut.trigger] + ([data_sig] if cfg["kind"] == "sampler" else [])
    extra_out = [] if cfg["kind"] == "sampler" else [data_sig]
    th = TH(dut, {"m": meth}, capture=(cls,), capture_funcs=("elaborate", "_trigger"), extra_inputs=extra_in, extra_outputs=extra_out)
    hw = th.hw
    ts = hw.ts
    trig = hw.b(dut.trigger)
    B = lambda c: z3.If(c, z3.BitVecVal(1, 1), z3.BitVecVal(0, 1))
    t1 = hw.ghost("t1", 1)
    t2 = hw.ghost("t2", 1)
    hw.set_ghost_next(t1, B(trig))
    hw.set_ghost_next(t2, t1)
    if cfg["kind"] == "sampler":
        d1 = hw.ghost("d1", len(data_sig))
        hw.set_ghost_next(d1, hw.sig(data_sig))
    ctx.use(hw)
    tloc = th.locals_of(dut, "_trigger")
    io = th.m["m"]
    p = z3.BoolVal(pol)
    eff = (t1 == 1) if sync else trig
    effprev = (t2 == 1) if sync else (t1 == 1)
    adj = lambda x: x if pol else z3.Not(x)
    # representation invariant: internal registers equal the ghost history
    inv_terms = []

    def inv(nextstate):
        cs = []
        if sync:
            keys = hw.regs_fed_by(dut.trigger)
            if len(keys) != 1:
                raise RuntimeError(f"synchroniser register not found ({len(keys)} candidates)")
            reg = ts.next[keys[0]] if nextstate else ts.state[keys[0]]
            cs.append(reg == (hw.gnext(t1) if nextstate else t1))
        if edge:
            old = tloc["old_trigger"]
            o = (hw.nxt(old) == 1) if nextstate else hw.b(old)
            if sync:
                prev_eff = (hw.gnext(t2) == 1) if nextstate else (t2 == 1)
            else:
                prev_eff = (hw.gnext(t1) == 1) if nextstate else (t1 == 1)
            cs.append(o == adj(prev_eff))
        if cfg["kind"] == "sampler" and sync:
            dloc = th.locals_of(dut)["data"]
            dreg = hw.nxt(dloc.as_value()) if nextstate else hw.sig(dloc.as_value())
            cs.append(dreg == (hw.gnext(d1) if nextstate else d1))
        return z3.And(*cs) if cs else z3.BoolVal(True)

    pre = [inv(False)]
    ctx.prove("init.wf", ts.at_init(inv(False)))
    ctx.prove("step.wf", inv(True), pre=pre, hw=hw)
    active = z3.And(eff == p, effprev != p) if edge else (eff == p)
    ctx.prove("ready_iff_trigger_active", z3.Implies(io.en, io.done == active), pre=pre, hw=hw)
    ctx.prove("method_ready_signal", hw.b(meth.ready) == active, pre=pre, hw=hw)
    ctx.prove("run_iff_done", io.run == io.done, pre=pre, hw=hw)
    if cfg["kind"] == "sampler":
        exp = d1 if sync else hw.sig(data_sig)
        ctx.prove("get.returns_synchronised_data", z3.Implies(io.run, hw.sig(io.adapter.data_out.as_value()) == exp), pre=pre, hw=hw)
    else:
        cur, nxt = hw.sig(data_sig), hw.nxt(data_sig)
        ctx.prove("put.drives_argument_from_next_cycle", nxt == z3.If(io.run, hw.sig(io.adapter.data_in.as_value()), cur), pre=pre, hw=hw)
    ctx.cover("active", z3.And(*pre, active), hw=hw)
    ctx.cover("inactive", z3.And(*pre, z3.Not(active)), hw=hw)


def _patch_polarity():
    import transactron.lib.basicio as B
    import inspect, textwrap

    src = textwrap.dedent(inspect.getsource(B.BasicIOBase._trigger))
    old = "old_trigger = Signal(init=not self._polarity)"
    assert old in src
    src = src.replace(old, "old_trigger = Signal(init=self._polarity)")
    ns = dict(B.__dict__)
    exec(src, ns)
    B.BasicIOBase._trigger = ns["_trigger"]


def _patch_edge():
    import transactron.lib.basicio as B
    import inspect, textwrap

    src = textwrap.dedent(inspect.getsource(B.BasicIOBase._trigger))
    old = "m.d.sync += old_trigger.eq(new_trigger)"
    assert old in src
    src = src.replace(old, "with m.If(new_trigger):\n            m.d.sync += old_trigger.eq(new_trigger)")
    ns = dict(B.__dict__)
    exec(src, ns)
    B.BasicIOBase._trigger = ns["_trigger"]


CANARIES = [
    {"name": "edge_detector_wrong_initial_value", "cfg": {"kind": "sampler", "edge": True, "polarity": True, "synchronize": False}, "patch": _patch_polarity, "expect": r"init\.wf"},
    {"name": "edge_detector_never_rearms", "cfg": {"kind": "buffer", "edge": True, "polarity": False, "synchronize": True}, "patch": _patch_edge, "expect": r"step\.wf|ready_iff"},
]
