"""C42 — DependencyManager keys behave as documented (bounded stand-in, E-RT).

Run-time contract: the real DependencyManager is driven through EVERY history of up to 6 operations over
{add(v1), add(v2), get, get_optional} for each key kind, and through every interleaving of up to 4 operations over
two keys of different kinds, side by side with an abstract model (key -> list of dependencies, set of locked keys):
  list key: all dependencies in insertion order; simple key: its single dependency, the default when allowed, KeyError
  when empty and not allowed, RuntimeError on two values; add after get raises KeyError iff the key locks on get;
  every get equals combine(current dependencies) (never stale); unifier key: the single method itself, otherwise the
  unifier built from exactly the current methods."""

import itertools
from dataclasses import dataclass

from transactron.utils.dependencies import DependencyManager, SimpleKey, ListKey
from transactron.lib.dependencies import UnifierKey

PROPERTY = "C42"
LEVEL = "exploration"
ENGINE = "E-RT"
TECHNIQUE = "run-time contract against an abstract model over exhaustively enumerated operation histories (bounded)"
LEVEL_TEXT = "Bounded stand-in (not a proof): exhaustive enumeration of all add/get histories up to length 6 per key kind and length 4 over two keys, the real DependencyManager compared with an abstract model after every operation."
LEVEL_NOTE = "Bounded to the stated history lengths and key kinds; Python-level object graphs are outside the reach of the SMT engines."
ASSUMPTIONS = ["bounded: histories <= 6 operations per key kind, <= 4 over two keys; values are two distinct objects"]


@dataclass(frozen=True)
class KSimple(SimpleKey[str]):
    pass


@dataclass(frozen=True)
class KSimpleDefault(SimpleKey[str]):
    empty_valid = True
    default_value = "dflt"


@dataclass(frozen=True)
class KSimpleNoLock(SimpleKey[str]):
    lock_on_get = False


@dataclass(frozen=True)
class KSimpleDefaultNoLock(SimpleKey[str]):
    """may be read while still empty (returns the default) and extended afterwards: the cached default must not survive the add"""

    empty_valid = True
    default_value = "dflt"
    lock_on_get = False


@dataclass(frozen=True)
class KSimpleDefaultNoLockNoCache(SimpleKey[str]):
    empty_valid = True
    default_value = "dflt"
    lock_on_get = False
    cache = False


@dataclass(frozen=True)
class KListEmptyValidNoLock(ListKey[str]):
    lock_on_get = False
    empty_valid = True


@dataclass(frozen=True)
class KList(ListKey[str]):
    pass


@dataclass(frozen=True)
class KListNoLock(ListKey[str]):
    lock_on_get = False


@dataclass(frozen=True)
class KListNoCache(ListKey[str]):
    lock_on_get = False
    cache = False


class StubUnifier:
    def __init__(self, methods):
        self.methods = list(methods)
        self.method = ("unified", tuple(methods))


@dataclass(frozen=True)
class KUnifier(UnifierKey, unifier=StubUnifier):
    lock_on_get = False


KINDS = {"simple": KSimple, "simple_default": KSimpleDefault, "simple_nolock": KSimpleNoLock, "simple_default_nolock": KSimpleDefaultNoLock,
         "simple_default_nolock_nocache": KSimpleDefaultNoLockNoCache, "list": KList, "list_nolock": KListNoLock, "list_empty_valid_nolock": KListEmptyValidNoLock,
         "list_nocache": KListNoCache, "unifier": KUnifier}
OPS = ["add1", "add2", "get", "opt"]


def configs(tier):
    out = [{"kind": k, "len": 6 if tier != "quick" else 5} for k in KINDS]
    pairs = list(itertools.combinations(KINDS, 2))
    for a, b in (pairs if tier != "quick" else pairs[::3]):
        out.append({"pair": [a, b], "len": 4})
    return out


class Model:
    def __init__(self):
        self.deps = {}
        self.locked = set()

    def spec(self, kname, op):
        """returns ('ok', value) | ('raise', exception type)"""
        K = KINDS[kname]
        if op in ("add1", "add2"):
            if kname in self.locked:
                return ("raise", KeyError)
            self.deps.setdefault(kname, []).append("v" + op[-1])
            return ("ok", None)
        if K.lock_on_get:
            self.locked.add(kname)
        d = list(self.deps.get(kname, []))
        if not K.empty_valid and kname not in self.deps:
            return ("ok", None) if op == "opt" else ("raise", KeyError)
        if issubclass(K, ListKey):
            return ("ok", d)
        if issubclass(K, SimpleKey):
            if len(d) == 0:
                return ("ok", K.default_value)
            if len(d) > 1:
                return ("raise", RuntimeError)
            return ("ok", d[0])
        if len(d) == 1:
            return ("ok", (d[0], ()))
        return ("ok", ("unified", tuple(d)))


def norm(kname, val):
    if KINDS[kname] is KUnifier and val is not None:
        meth, unis = val
        unis = tuple(unis)
        if len(unis) == 0:
            return (meth, ())
        assert len(unis) == 1 and unis[0].method is meth
        return meth
    if isinstance(val, list):
        return list(val)
    return val


def run_history(hist):
    dm = DependencyManager()
    keys = {k: KINDS[k]() for k in KINDS}
    model = Model()
    for step, (kname, op) in enumerate(hist):
        exp = model.spec(kname, op)
        try:
            if op.startswith("add"):
                got = ("ok", dm.add_dependency(keys[kname], "v" + op[-1]))
            elif op == "get":
                got = ("ok", dm.get_dependency(keys[kname]))
            else:
                got = ("ok", dm.get_optional_dependency(keys[kname]))
        except Exception as e:  # noqa: BLE001
            got = ("raise", type(e))
        if got[0] == "ok":
            got = ("ok", norm(kname, got[1]))
        expn = exp
        if exp[0] == "ok" and KINDS[kname] is KUnifier and exp[1] is not None and exp[1][0] != "unified":
            expn = ("ok", exp[1])
        if got != expn:
            return {"history": [f"{k}.{o}" for k, o in hist[: step + 1]], "expected": repr(exp), "got": repr(got)}
    return None


def run(cfg, ctx):
    fails = []
    n = 0
    seen = set()
    if "kind" in cfg:
        space = [[(cfg["kind"], o) for o in seq] for L in range(1, cfg["len"] + 1) for seq in itertools.product(OPS, repeat=L)]
    else:
        a, b = cfg["pair"]
        alphabet = [(k, o) for k in (a, b) for o in OPS]
        space = [list(seq) for L in range(1, cfg["len"] + 1) for seq in itertools.product(alphabet, repeat=L)]
    for hist in space:
        n += 1
        seen.add(tuple(hist))
        f = run_history(hist)
        if f:
            fails.append(f)
    ctx.functions.update({("DependencyManager.add_dependency", "transactron/utils/dependencies.py"), ("DependencyManager.get_optional_dependency", "transactron/utils/dependencies.py"),
                          ("DependencyManager.get_dependency", "transactron/utils/dependencies.py"), ("SimpleKey.combine", "transactron/utils/dependencies.py"),
                          ("ListKey.combine", "transactron/utils/dependencies.py"), ("UnifierKey.combine", "transactron/lib/dependencies.py")})
    ctx.bounded_result("dependency_manager.matches_model", n, len(seen), fails,
                       rule="every operation sequence over {add(v1), add(v2), get, get_optional} up to the stated length (per key kind, or interleaved over two key kinds); distinct by sequence; each is non-trivial (at least one operation on a real DependencyManager)",
                       samples=[[f"{k}.{o}" for k, o in space[len(space) // 2]]], exhaustive=True)


def _patch_cache():
    import transactron.utils.dependencies as D

    def add(self, key, dependency):
        if key in self.locked_dependencies:
            raise KeyError("locked")
        self.dependencies[key].append(dependency)  # cache not invalidated

    D.DependencyManager.add_dependency = add


def _patch_lock():
    import transactron.utils.dependencies as D
    import inspect, textwrap

    src = textwrap.dedent(inspect.getsource(D.DependencyManager.get_optional_dependency))
    old = "if key.lock_on_get:\n    self.locked_dependencies.add(key)\n"
    new_src = src.replace("    if key.lock_on_get:\n        self.locked_dependencies.add(key)\n", "")
    assert new_src != src
    new_src = new_src.replace("    val = key.combine(self.dependencies[key])", "    if key.lock_on_get:\n        self.locked_dependencies.add(key)\n    val = key.combine(self.dependencies[key])")
    ns = dict(D.__dict__)
    exec(new_src, ns)
    D.DependencyManager.get_optional_dependency = ns["get_optional_dependency"]


CANARIES = [
    {"name": "cache_not_invalidated_on_add", "cfg": {"kind": "simple_nolock", "len": 4}, "patch": _patch_cache, "expect": r"matches_model"},
    {"name": "lock_only_when_value_computed", "cfg": {"kind": "simple", "len": 4}, "patch": _patch_lock, "expect": r"matches_model"},
]
