"""C24 — ContentAddressableMemory behaves as a dictionary.

view = partial map {address_array[i] -> data_array[i] | valids[i]};  wf: valid entries have pairwise distinct keys.
read: not_found <=> key not in dom, else data = view[key]; write: not_found likewise, view[key := data] if present;
remove: delete key; push: ready <=> a slot is free, insert (key, data).  Simultaneous calls compose:
view' = push(remove(write(view)))."""

import z3
from transactron.lib.storage import ContentAddressableMemory

from engine.th import TH
from spec.seq import N, bit

PROPERTY = "C24"
LEVEL = "proof"
ASSUMPTIONS = [
    "caller obligation from the property statement: push is never called with a key that is already present",
    "entry counts swept as listed (incl. non powers of two), 2-bit keys and data; unbounded in inputs and history length",
]


def configs(tier):
    return [{"entries": n} for n in (range(1, 5) if tier == "quick" else range(1, 7))]


def run(cfg, ctx):
    n = cfg["entries"]
    DW = 2
    KW = 2 if n <= 4 else 3
    dut = ContentAddressableMemory([("k", KW)], [("d", DW)], n)
    th = TH(dut, {"read": dut.read, "write": dut.write, "remove": dut.remove, "push": dut.push}, capture=(ContentAddressableMemory,))
    hw = ctx.use(th.hw)
    loc = th.locals_of(dut)
    addr_arr, data_arr, valids = loc["address_array"], loc["data_array"], loc["valids"]
    K0 = [hw.sig(addr_arr[i]) for i in range(n)]
    D0 = [hw.sig(data_arr[i]) for i in range(n)]
    V0 = [bit(hw.sig(valids), i) for i in range(n)]
    K1 = [hw.nxt(addr_arr[i]) for i in range(n)]
    D1 = [hw.nxt(data_arr[i]) for i in range(n)]
    V1 = [bit(hw.nxt(valids), i) for i in range(n)]

    def wf(K, V):
        return z3.And(*[z3.Not(z3.And(V[i], V[j], K[i] == K[j])) for i in range(n) for j in range(i + 1, n)]) if n > 1 else z3.BoolVal(True)

    def has(K, V, key):
        return z3.Or(*[z3.And(V[i], K[i] == key) for i in range(n)])

    def get(K, D, V, key):
        r = z3.BitVecVal(0, DW)
        for i in reversed(range(n)):
            r = z3.If(z3.And(V[i], K[i] == key), D[i], r)
        return r

    m = th.m
    rd, wr, rm, pu = m["read"], m["write"], m["remove"], m["push"]
    pk, pd = pu.arg("addr"), pu.arg("data")
    A = [z3.Implies(pu.run, z3.Not(has(K0, V0, pk)))]
    pre = [wf(K0, V0)]
    P = lambda name, post: ctx.prove(name, post, pre=pre, assume=A, hw=hw)
    ctx.prove("init.empty", hw.ts.at_init(z3.And(wf(K0, V0), *[z3.Not(v) for v in V0])))
    P("step.wf", wf(K1, V1))
    nvalid = sum((z3.If(v, N(1), N(0)) for v in V0), N(0))
    P("push.ready_iff_slot_free", z3.Implies(pu.en, pu.done == z3.ULT(nvalid, N(n))))
    for k, io in m.items():
        if k != "push":
            P(f"{k}.ready", z3.Implies(io.en, io.done))
        P(f"{k}.run_iff_done", io.run == io.done)
    rk = rd.arg("addr")
    P("read.result", z3.Implies(rd.run, z3.And((rd.res("not_found") == 1) == z3.Not(has(K0, V0, rk)), z3.Implies(has(K0, V0, rk), rd.res("data") == get(K0, D0, V0, rk)))))
    wk, wd = wr.arg("addr"), wr.arg("data")
    P("write.not_found", z3.Implies(wr.run, (wr.res("not_found") == 1) == z3.Not(has(K0, V0, wk))))
    rmk = rm.arg("addr")
    # whole-view step: for every possible key q (2-bit keys: 4 of them) membership and value after the cycle
    fs = []
    for q in range(1 << KW):
        qv = z3.BitVecVal(q, KW)
        pushed = z3.And(pu.run, pk == qv)
        removed = z3.And(rm.run, rmk == qv)
        written = z3.And(wr.run, wk == qv)
        in0 = has(K0, V0, qv)
        exp_in = z3.Or(pushed, z3.And(in0, z3.Not(removed)))
        exp_val = z3.If(pushed, pd, z3.If(written, wd, get(K0, D0, V0, qv)))
        fs.append(has(K1, V1, qv) == exp_in)
        fs.append(z3.Implies(exp_in, get(K1, D1, V1, qv) == exp_val))
    P("step.view", z3.And(*fs))
    ctx.cover("full", z3.And(*pre, nvalid == n), hw=hw)
    ctx.cover("push+remove+write+read", z3.And(*pre, *A, pu.run, rm.run, wr.run, rd.run), hw=hw) if n > 1 else None


def _patch():
    import transactron.lib.storage as S
    import inspect, textwrap

    src = textwrap.dedent(inspect.getsource(S.ContentAddressableMemory.elaborate))
    old = 'm.d.top_comb += rm_mask.eq(Cat([addr == stored_addr for stored_addr in address_array]) & valids)'
    assert old in src
    src = src.replace(old, 'm.d.top_comb += rm_mask.eq(Cat([addr == stored_addr for stored_addr in address_array]))')
    ns = dict(S.__dict__)
    exec(src, ns)
    S.ContentAddressableMemory.elaborate = ns["elaborate"]


CANARIES = [{"name": "remove_matches_invalid_slots", "cfg": {"entries": 3}, "patch": _patch, "expect": r"step\.view"}]
