"""C17 — Forwarder and Pipe are lossless one-slot buffers.

view = reg_valid ? [reg] : [].
Forwarder: write.ready <=> len=0; read/peek.ready <=> len=1 or write runs; read/peek result = len=1 ? e0 : written value.
Pipe:      read/peek.ready <=> len=1; write.ready <=> len=0 or read runs.
Both: view' = clear ? [] : drop_head_if_read(view ++ [x if write]) — so every written value is delivered
exactly once and in order, clear wins over a simultaneous write, peek never consumes."""

import z3
from transactron.lib.connectors import Forwarder, Pipe

from engine.th import TH
from spec.seq import N, Seq

PROPERTY = "C17"
HISTORY_LEMMAS = ['queue_history', 'clear_empties', 'idle_keeps']  # lemmas/History.lean: one-cycle contracts => history-level statement (Lean 4)
LEVEL = "proof"
ASSUMPTIONS = ["payload layouts swept as listed; unbounded in inputs and history length"]
LAYOUTS = {"d1": [("data", 1)], "d3": [("data", 3)], "a1b2": [("a", 1), ("b", 2)]}


def configs(tier):
    return [{"kind": k, "layout": l} for k in ("forwarder", "pipe") for l in LAYOUTS]


def run(cfg, ctx):
    cls = Forwarder if cfg["kind"] == "forwarder" else Pipe
    dut = cls(LAYOUTS[cfg["layout"]])
    th = TH(dut, {"read": dut.read, "write": dut.write, "peek": dut.peek, "clear": dut.clear}, capture=(cls,))
    hw = ctx.use(th.hw)
    loc = th.locals_of(dut)
    reg, reg_valid = loc["reg"], loc["reg_valid"]
    v0 = Seq(N(hw.sig(reg_valid)), [hw.sig(reg)])
    v1 = Seq(N(hw.nxt(reg_valid)), [hw.nxt(reg)])
    rd, wr, pk, cl = (th.m[k] for k in ("read", "write", "peek", "clear"))
    x = wr.arg()
    full = v0.n == 1
    ctx.prove("init.view_empty", hw.ts.at_init(v0.n == 0))
    if cfg["kind"] == "forwarder":
        ctx.prove("write.ready", z3.Implies(wr.en, wr.done == z3.Not(full)), hw=hw)
        # readiness of read/peek depends on write running (write is scheduled before read/peek)
        ctx.prove("read.ready", z3.Implies(rd.en, rd.done == z3.Or(full, wr.run)), hw=hw)
        ctx.prove("peek.ready", z3.Implies(pk.en, pk.done == z3.Or(full, wr.run)), hw=hw)
        val = z3.If(full, v0[0], x)
        ctx.prove("read.result", z3.Implies(rd.run, rd.res() == val), hw=hw)
        ctx.prove("peek.result", z3.Implies(pk.run, pk.res() == val), hw=hw)
    else:
        ctx.prove("read.ready", z3.Implies(rd.en, rd.done == full), hw=hw)
        ctx.prove("peek.ready", z3.Implies(pk.en, pk.done == full), hw=hw)
        ctx.prove("write.ready", z3.Implies(wr.en, wr.done == z3.Or(z3.Not(full), rd.run)), hw=hw)
        ctx.prove("read.result", z3.Implies(rd.run, rd.res() == v0[0]), hw=hw)
        ctx.prove("peek.result", z3.Implies(pk.run, pk.res() == v0[0]), hw=hw)
    ctx.prove("clear.ready", z3.Implies(cl.en, cl.done), hw=hw)
    for k, io in th.m.items():
        ctx.prove(f"{k}.run_iff_done", io.run == io.done, hw=hw)
    # two-slot ghost sequence to express view ++ [x] before the pop
    ext = Seq(v0.n, [v0.e[0], v0.e[0]]).append1(x, wr.run).drop(N(rd.run))
    exp_n = z3.If(cl.run, N(0), ext.n)
    ctx.prove("step.view", z3.And(v1.n == exp_n, z3.Implies(exp_n == 1, v1.e[0] == ext.e[0])), hw=hw)
    ctx.prove("step.no_overflow", z3.ULE(ext.n, N(1)), hw=hw)
    ctx.cover("read+write", z3.And(rd.run, wr.run), hw=hw)
    ctx.cover("clear+write", z3.And(cl.run, wr.run), hw=hw)
    ctx.cover("full", full, hw=hw)


def _patch_pipe():
    import inspect, textwrap
    import transactron.lib.connectors as C

    src = textwrap.dedent(inspect.getsource(C.Pipe.elaborate))
    src = src.replace("ready=~reg_valid | self.read.run", "ready=~reg_valid | self.peek.run")
    ns = dict(C.__dict__)
    exec(src, ns)
    C.Pipe.elaborate = ns["elaborate"]


def _patch_fwd_clear():
    import inspect, textwrap
    import transactron.lib.connectors as C

    src = textwrap.dedent(inspect.getsource(C.Forwarder.elaborate))
    # clear defined before write: write's reg_valid.eq(1) then wins
    a = src.index("    @def_method(m, self.clear")
    b = src.index("    return m")
    clear_block = src[a:b]
    src = src[:a] + src[b:]
    src = src.replace("    @def_method(m, self.write", clear_block + "    @def_method(m, self.write", 1)
    ns = dict(C.__dict__)
    exec(src, ns)
    C.Forwarder.elaborate = ns["elaborate"]


CANARIES = [
    {"name": "pipe_write_ready_on_peek", "cfg": {"kind": "pipe", "layout": "d3"}, "patch": _patch_pipe, "expect": r"write\.ready|step\."},
    {"name": "forwarder_write_wins_over_clear", "cfg": {"kind": "forwarder", "layout": "d3"}, "patch": _patch_fwd_clear, "expect": r"step\.view"},
]
