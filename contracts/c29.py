"""C29 — stream adapters obey the ready/valid protocol.

StreamSource: view = valid ? [payload] : []; write.ready <=> len = 0 or o.ready;
  view' = drop_head_if(o.ready and valid)(view) ++ [x if write]; stability: valid and not o.ready => valid' and payload' = payload.
StreamSink (combinational): read.ready = peek.ready = i.valid; i.ready = read.run; results = i.payload; peek never drives i.ready.
StreamModuleWrapper around a pass-through and around a one-slot stream register: the wrapper's submodules are wired
source.o == module.i, module.o == sink.i, and end to end the wrapped chain is a bounded queue (written items come out
exactly once, in order)."""

import z3
from amaranth import Elaboratable, Module, Signal
from amaranth.lib import stream, wiring
from amaranth.lib.wiring import In, Out
from transactron.lib.stream import StreamSink, StreamSource, StreamModuleWrapper

from engine.th import TH
from spec.seq import N, Seq

PROPERTY = "C29"
HISTORY_LEMMAS = ['queue_history']  # lemmas/History.lean: one-cycle contracts => history-level statement (Lean 4)
LEVEL = "proof"
ASSUMPTIONS = ["payload shapes 1-3 bits; unbounded in handshake/write/read histories"]


class PassThrough(wiring.Component):
    def __init__(self, w):
        super().__init__({"i": In(stream.Signature(w)), "o": Out(stream.Signature(w))})

    def elaborate(self, platform):
        m = Module()
        wiring.connect(m, wiring.flipped(self.i), wiring.flipped(self.o))
        return m


class OneSlot(wiring.Component):
    """a plain Amaranth one-slot stream register (the 'wrapped module'); it is part of the harness, not of /repo"""

    def __init__(self, w):
        super().__init__({"i": In(stream.Signature(w)), "o": Out(stream.Signature(w))})

    def elaborate(self, platform):
        m = Module()
        m.d.comb += self.i.ready.eq(~self.o.valid | self.o.ready)
        with m.If(self.i.ready):
            m.d.sync += [self.o.valid.eq(self.i.valid), self.o.payload.eq(self.i.payload)]
        return m


def configs(tier):
    ws = (1, 2, 3)
    return [{"kind": k, "w": w} for k in ("source", "sink", "wrap_passthrough", "wrap_oneslot") for w in ws]


def run(cfg, ctx):
    w = cfg["w"]
    k = cfg["kind"]
    if k == "source":
        dut = StreamSource(w)
        th = TH(dut, {"write": dut.write}, extra_inputs=[dut.o.ready], extra_outputs=[dut.o.valid, dut.o.payload])
        hw = ctx.use(th.hw)
        wr = th.m["write"]
        valid, pay, ordy = hw.b(dut.o.valid), hw.sig(dut.o.payload), hw.b(dut.o.ready)
        valid_n, pay_n = hw.nxt(dut.o.valid) == 1, hw.nxt(dut.o.payload)
        v0 = Seq(N(valid), [pay, pay])
        v1 = Seq(N(valid_n), [pay_n, pay_n])
        x = wr.arg("data")
        ctx.prove("init.empty", hw.ts.at_init(z3.Not(valid)))
        ctx.prove("write.ready", z3.Implies(wr.en, wr.done == z3.Or(z3.Not(valid), ordy)), hw=hw)
        ctx.prove("write.run_iff_done", wr.run == wr.done, hw=hw)
        exp = v0.drop(N(z3.And(ordy, valid))).append1(x, wr.run)
        ctx.prove("step.view", z3.And(v1.n == exp.n, z3.Implies(exp.n == 1, v1.e[0] == exp.e[0]), z3.ULE(exp.n, N(1))), hw=hw)
        ctx.prove("stable_until_accepted", z3.Implies(z3.And(valid, z3.Not(ordy)), z3.And(valid_n, pay_n == pay)), hw=hw)
        ctx.cover("transfer+write", z3.And(valid, ordy, wr.run), hw=hw)
    elif k == "sink":
        dut = StreamSink(w)
        th = TH(dut, {"read": dut.read, "peek": dut.peek}, extra_inputs=[dut.i.valid, dut.i.payload], extra_outputs=[dut.i.ready])
        hw = ctx.use(th.hw)
        rd, pk = th.m["read"], th.m["peek"]
        ivalid, ipay, irdy = hw.b(dut.i.valid), hw.sig(dut.i.payload), hw.b(dut.i.ready)
        ctx.prove("read.ready_iff_valid", z3.Implies(rd.en, rd.done == ivalid), hw=hw)
        ctx.prove("peek.ready_iff_valid", z3.Implies(pk.en, pk.done == ivalid), hw=hw)
        ctx.prove("stream_ready_iff_read_runs", irdy == rd.run, hw=hw)
        ctx.prove("read.result", z3.Implies(rd.run, rd.res("data") == ipay), hw=hw)
        ctx.prove("peek.result", z3.Implies(pk.run, pk.res("data") == ipay), hw=hw)
        ctx.prove("peek.never_consumes", z3.Implies(z3.And(pk.run, z3.Not(rd.run)), z3.Not(irdy)), hw=hw)
        ctx.cover("peek+read", z3.And(pk.run, rd.run), hw=hw)
    else:
        inner = PassThrough(w) if k == "wrap_passthrough" else OneSlot(w)
        dut = StreamModuleWrapper(inner)
        th = TH(dut, {"write": dut.write, "read": dut.read}, capture=(StreamModuleWrapper,))
        hw = ctx.use(th.hw)
        loc = th.locals_of(dut)
        source, sink = loc["source"], loc["sink"]
        wr, rd = th.m["write"], th.m["read"]
        eq = lambda a, b: hw.sig(a) == hw.sig(b)
        ctx.prove("wiring.source_to_module", z3.And(eq(source.o.valid, inner.i.valid), eq(source.o.payload, inner.i.payload), eq(source.o.ready, inner.i.ready)), hw=hw)
        ctx.prove("wiring.module_to_sink", z3.And(eq(inner.o.valid, sink.i.valid), eq(inner.o.payload, sink.i.payload), eq(inner.o.ready, sink.i.ready)), hw=hw)
        ctx.prove("methods_are_the_adapters", z3.And(wr.run == hw.b(source.write.run), rd.run == hw.b(sink.read.run)), hw=hw)
        svalid, spay = hw.b(source.o.valid), hw.sig(source.o.payload)
        svalid_n, spay_n = hw.nxt(source.o.valid) == 1, hw.nxt(source.o.payload)
        x = wr.arg("data")
        if k == "wrap_passthrough":
            v0 = Seq(N(svalid), [spay, spay])
            v1 = Seq(N(svalid_n), [spay_n, spay_n])
            cap = 1
        else:
            mvalid, mpay = hw.b(inner.o.valid), hw.sig(inner.o.payload)
            mvalid_n, mpay_n = hw.nxt(inner.o.valid) == 1, hw.nxt(inner.o.payload)
            # oldest first: the module's slot, then the source's slot
            v0 = Seq(N(mvalid) + N(svalid), [z3.If(mvalid, mpay, spay), spay, spay])
            v1 = Seq(N(mvalid_n) + N(svalid_n), [z3.If(mvalid_n, mpay_n, spay_n), spay_n, spay_n])
            cap = 2
        ctx.prove("init.empty", hw.ts.at_init(v0.n == 0))
        ctx.prove("read.ready_iff_output_available", z3.Implies(rd.en, rd.done == (hw.b(inner.o.valid))), hw=hw)
        ctx.prove("read.result_is_oldest", z3.Implies(rd.run, rd.res("data") == v0[0]), hw=hw)
        exp = v0.drop(N(rd.run)).append1(x, wr.run)
        ctx.prove("step.view", z3.And(v1.n == exp.n, z3.ULE(exp.n, N(cap)), *[z3.Implies(z3.ULT(N(i), exp.n), v1.e[i] == exp.e[i]) for i in range(cap)]), hw=hw)
        ctx.cover("read+write", z3.And(rd.run, wr.run), hw=hw)


def _patch_source():
    import transactron.lib.stream as S
    import inspect, textwrap

    src = textwrap.dedent(inspect.getsource(S.StreamSource.elaborate))
    old = "with m.If(self.o.ready & ~self.write.run):"
    assert old in src
    src = src.replace(old, "with m.If(self.o.ready):")
    src = src.replace("@def_method(m, self.write, ready=(~self.o.valid | self.o.ready))", "PLACEHOLDER")
    # move the valid-clearing block before the method so that a simultaneous write still wins -> harmless; instead keep order: clear wins
    src = src.replace("PLACEHOLDER", "@def_method(m, self.write, ready=(~self.o.valid | self.o.ready))")
    ns = dict(S.__dict__)
    exec(src, ns)
    S.StreamSource.elaborate = ns["elaborate"]


def _patch_sink():
    import transactron.lib.stream as S
    import inspect, textwrap

    src = textwrap.dedent(inspect.getsource(S.StreamSink.elaborate))
    old = '''        return {"data": self.i.payload}

    @def_method(m, self.read'''
    assert old in src
    src = src.replace(old, '''        m.d.comb += self.i.ready.eq(1)
        return {"data": self.i.payload}

    @def_method(m, self.read''')
    ns = dict(S.__dict__)
    exec(src, ns)
    S.StreamSink.elaborate = ns["elaborate"]


CANARIES = [
    {"name": "source_drops_item_written_during_transfer", "cfg": {"kind": "source", "w": 2}, "patch": _patch_source, "expect": r"step\.view"},
    {"name": "peek_consumes", "cfg": {"kind": "sink", "w": 2}, "patch": _patch_sink, "expect": r"peek\.never_consumes|stream_ready"},
]
