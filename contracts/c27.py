"""C27 — CircularAllocator hands out identifiers in ring order.

wf: start, end < n; allocated <= n; end = (start + allocated) mod n.  view = ring segment of `allocated`
identifiers starting at `start`.  alloc(c): idents[j] = (end + j) mod n, new_end_idx = (end + c) mod n;
free(c): idents[j] = (start + j) mod n, new_start_idx = (start + c) mod n; allocated' = allocated + c_a - c_f;
with validation a call is accepted only if allocated + c <= n resp. c <= allocated; clear empties."""

import z3
from transactron.lib.allocators import CircularAllocator

from engine.th import TH
from spec.seq import N, lt, le, nmod

PROPERTY = "C27"
HISTORY_LEMMAS = ['batched_queue_history']  # lemmas/History.lean: one-cycle contracts => history-level statement (Lean 4)
LEVEL = "proof"
ASSUMPTIONS = [
    "count <= max_alloc / max_free (the argument layout is range(max+1); wider bit patterns are outside the type)",
    "with_validate_arguments=False (and max == 1 never installs a validator): the documented caller obligation allocated + count <= entries resp. count <= allocated is assumed",
    "(entries, max_alloc, max_free, validation) swept as listed; unbounded in inputs and history length",
]


def configs(tier):
    out = []
    E = range(1, 8) if tier == "quick" else range(1, 11)
    for n in E:
        for ma in range(1, min(n, 3) + 1):
            for mf in range(1, min(n, 3) + 1):
                for val in (True, False):
                    if tier == "quick" and not val and (ma, mf) not in ((1, 1), (2, 2), (3, 1)):
                        continue
                    out.append({"entries": n, "max_alloc": ma, "max_free": mf, "validate": val})
    return out


def run(cfg, ctx):
    n, ma, mf, val = cfg["entries"], cfg["max_alloc"], cfg["max_free"], cfg["validate"]
    dut = CircularAllocator(n, ma, mf, with_validate_arguments=val)
    th = TH(dut, {"alloc": dut.alloc, "free": dut.free, "clear": dut.clear})
    hw = ctx.use(th.hw)
    nat = lambda t: N(t) if t is not None else N(0)
    s0 = (nat(hw.sig(dut.start_idx)) if len(dut.start_idx) else N(0), nat(hw.sig(dut.end_idx)) if len(dut.end_idx) else N(0), N(hw.sig(dut.allocated)))
    s1 = (nat(hw.nxt(dut.start_idx)) if len(dut.start_idx) else N(0), nat(hw.nxt(dut.end_idx)) if len(dut.end_idx) else N(0), N(hw.nxt(dut.allocated)))

    def wf(start, end, allocated):
        return z3.And(lt(start, n), lt(end, n), le(allocated, n), end == nmod(start + allocated, n))

    start, end, allocated = s0
    al, fr, cl = th.m["alloc"], th.m["free"], th.m["clear"]
    ca, cf = nat(al.arg("count")), nat(fr.arg("count"))
    A = [le(ca, ma), le(cf, mf)]
    a_valid = val and ma > 1
    f_valid = val and mf > 1
    if not a_valid:
        A.append(z3.Implies(al.done, le(allocated + ca, n)))
    if not f_valid:
        A.append(z3.Implies(fr.done, le(cf, allocated)))
    pre = [wf(*s0)]
    ctx.prove("init.wf", hw.ts.at_init(z3.And(wf(*s0), allocated == 0)))
    ctx.prove("step.wf", wf(*s1), pre=pre, assume=A, hw=hw)
    ctx.prove("reset.wf", wf(*s1), pre=pre + [hw.rst == 1])
    fits_a = le(allocated + ca, n) if a_valid else z3.BoolVal(True)
    fits_f = le(cf, allocated) if f_valid else z3.BoolVal(True)
    ctx.prove("alloc.accepts_iff", z3.Implies(al.en, al.done == z3.And(allocated != n, fits_a)), pre=pre, assume=A[:2], hw=hw)
    ctx.prove("free.accepts_iff", z3.Implies(fr.en, fr.done == z3.And(allocated != 0, fits_f)), pre=pre, assume=A[:2], hw=hw)
    ctx.prove("clear.ready", z3.Implies(cl.en, cl.done), pre=pre, assume=A, hw=hw)
    for k, io in th.m.items():
        ctx.prove(f"{k}.run_iff_done", io.run == io.done, pre=pre, assume=A, hw=hw)
    fs = [nat(hw.sig(al.adapter.data_out.idents[j])) == nmod(end + j, n) for j in range(ma)]
    fs.append(nat(al.res("new_end_idx")) == nmod(end + ca, n))
    ctx.prove("alloc.result", z3.Implies(al.run, z3.And(*fs)), pre=pre, assume=A, hw=hw)
    fs = [nat(hw.sig(fr.adapter.data_out.idents[j])) == nmod(start + j, n) for j in range(mf)]
    fs.append(nat(fr.res("new_start_idx")) == nmod(start + cf, n))
    ctx.prove("free.result", z3.Implies(fr.run, z3.And(*fs)), pre=pre, assume=A, hw=hw)
    na = z3.If(al.run, ca, N(0))
    nf = z3.If(fr.run, cf, N(0))
    exp = z3.If(cl.run, z3.And(s1[0] == 0, s1[1] == 0, s1[2] == 0),
                z3.And(s1[0] == nmod(start + nf, n), s1[1] == nmod(end + na, n), s1[2] == allocated + na - nf))
    ctx.prove("step.view", exp, pre=pre, assume=A, hw=hw)
    ctx.cover("alloc+free", z3.And(*pre, *A, al.run, fr.run), hw=hw) if n > 1 else None
    ctx.cover("alloc_max", z3.And(*pre, *A, al.run, ca == ma), hw=hw)
    ctx.cover("free_max", z3.And(*pre, *A, fr.run, cf == mf), hw=hw)


def _patch_validate():
    import transactron.lib.allocators as A
    import inspect, textwrap

    src = textwrap.dedent(inspect.getsource(A.CircularAllocator.elaborate))
    src = src.replace("lambda count: self.allocated + count <= self.entries", "lambda count: self.allocated + count <= self.entries + 1")
    ns = dict(A.__dict__)
    exec(src, ns)
    A.CircularAllocator.elaborate = ns["elaborate"]


def _patch_idents():
    import transactron.lib.allocators as A
    import inspect, textwrap

    src = textwrap.dedent(inspect.getsource(A.CircularAllocator.elaborate))
    src = src.replace('"idents": [mod_add(self.start_idx, self.entries, i, i) for i in range(self.max_free)]', '"idents": [mod_add(self.start_idx, self.entries, i, self.max_free) if i < 2 else self.start_idx + i for i in range(self.max_free)]')
    ns = dict(A.__dict__)
    exec(src, ns)
    A.CircularAllocator.elaborate = ns["elaborate"]


CANARIES = [
    {"name": "validate_off_by_one", "cfg": {"entries": 5, "max_alloc": 2, "max_free": 1, "validate": True}, "patch": _patch_validate, "expect": r"alloc\.accepts_iff|step\.wf"},
    {"name": "free_idents_unwrapped", "cfg": {"entries": 5, "max_alloc": 1, "max_free": 3, "validate": True}, "patch": _patch_idents, "expect": r"free\.result"},
]
