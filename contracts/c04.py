"""C04 — methods execute exactly when called by a running caller.

Per design and method: run <=> some call site is active (sites in transactions and in methods); an
uncalled method never runs; a nested body runs only with its enclosing body; a provided/aliased method
object has the run/ready of the defining body."""

from contracts import corelib

PROPERTY = "C04"
LEVEL = "proof"
ASSUMPTIONS = corelib.CORE_ASSUMPTIONS
TECHNIQUE = "contracts on the elaborated netlist of generated designs (real manager in the loop), discharged by z3 for all inputs; oracle = spec-level design semantics"


def configs(tier):
    return corelib.design_configs(tier, schedulers=("eager",), with_cond=True)


def run(cfg, ctx):
    corelib.run_core(PROPERTY, cfg, ctx)


def _patch_granted():
    import transactron.core.manager as MG
    import inspect, textwrap

    src = textwrap.dedent(inspect.getsource(MG.TransactionManager.elaborate))
    src = src.replace("transaction.run & Cat(call.enable for call in method_map.info_by_call[(transaction, method)]).any()", "transaction.run")
    ns = dict(MG.__dict__)
    exec(src, ns)
    MG.TransactionManager.elaborate = ns["elaborate"]


CANARIES = [{"name": "method_runs_whenever_a_caller_runs", "cfg": {"design": "disabled_calls", "scheduler": "eager"}, "patch": _patch_granted, "expect": r"runs_iff_some_call_active"}]
