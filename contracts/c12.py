"""C12 — condition() picks one admissible branch.

Designs with condition(m, nonblocking, priority), 1-3 branches with free (overlapping) conditions, optional
default, inside transactions and methods, two blocks in one body, nested blocks, shared callees. Branch run
is observed through a comb-domain witness in the branch; obligations for all inputs:
  branch_i runs => enclosing body runs and c_i and every method in the branch's call tree is ready;
  at most one branch runs; default runs => no condition holds;
  enclosing runs => some branch runs, or (nonblocking and no condition holds);
  priority: branch_i runs => no earlier branch admissible (c_j and its callees ready)."""

import z3

from contracts import corelib
from designs import family
from designs.build import ev
from spec.seq import at_most_one

PROPERTY = "C12"
LEVEL = "proof"
ASSUMPTIONS = corelib.CORE_ASSUMPTIONS + [
    "priority obligation: the callees of the branches are not contended by transactions outside the condition block (with outside contention 'admissible' would have to include winning that arbitration)",
]
TECHNIQUE = "contracts on the elaborated netlist of generated designs using condition(); z3, all inputs"


def configs(tier):
    return [{"design": n, "scheduler": "eager"} for n in family.cond_designs()]


def run(cfg, ctx):
    b, o = corelib.build(cfg, ctx)
    hw = b.hw
    d = b.d
    contended = cfg["design"] in ("cond_shared_callee",)
    for k, ci in enumerate(d.conds):
        st = ci.spec
        nbr = len(ci.wits)
        w = [hw.b(x) for x in ci.wits]
        explicit = [ev(c, hw) for c in ci.conds]
        none = z3.Not(z3.Or(*explicit))
        cond_i = explicit + ([none] if len(ci.wits) > len(explicit) else [])
        # a nonblocking block without explicit default gets an (empty) implicit default branch: no witness for it
        encl = b.run(ci.body.name)
        branch_names = sorted([n for n, bi in d.bodies.items() if bi.branch_of is not None and bi.branch_of[0] is ci], key=lambda n: d.bodies[n].branch_of[1])
        ready_tree = [z3.And(*[b.ready(m) for m in o.tree(n)]) if o.tree(n) else z3.BoolVal(True) for n in branch_names]
        P = lambda name, post: ctx.prove(f"cond{k}.{name}", post, hw=hw)
        for i in range(nbr):
            P(f"branch{i}.runs_only_if_enclosing_runs_condition_holds_callees_ready", z3.Implies(w[i], z3.And(encl, cond_i[i], ready_tree[i])))
            P(f"branch{i}.witness_is_branch_run", w[i] == b.run(branch_names[i]))
        P("at_most_one_branch_runs", at_most_one(w))
        if ci.has_default:
            P("default_only_if_no_condition_holds", z3.Implies(w[-1], none))
        escape = z3.And(z3.BoolVal(bool(st.get("nonblocking")) and not ci.has_default), none)
        P("enclosing_runs_only_with_a_branch", z3.Implies(encl, z3.Or(*w, escape)))
        if st.get("priority") and not contended:
            adm = [z3.And(cond_i[i], ready_tree[i]) for i in range(nbr)]
            for i in range(1, nbr):
                P(f"branch{i}.priority_no_earlier_admissible", z3.Implies(w[i], z3.Not(z3.Or(*adm[:i]))))
        for i in range(nbr):
            ctx.cover(f"cond{k}.branch{i}.can_run", w[i], hw=hw)
    if not d.conds:
        raise RuntimeError("design without condition()")


def _patch_default():
    import transactron.lib.simultaneous as S
    import inspect, textwrap

    src = textwrap.dedent(inspect.getsource(S.condition.__wrapped__))
    src = src.replace("cond if cond is not None else ~Cat(*conds).any()", "cond if cond is not None else ~Cat(*conds[:1]).any()")
    ns = dict(S.__dict__)
    exec("from contextlib import contextmanager\n@contextmanager\n" + src[src.index("def condition"):], ns)
    S.condition = ns["condition"]
    import designs.build as B
    B.condition = ns["condition"]


def _patch_priority():
    import transactron.lib.simultaneous as S
    import inspect, textwrap

    src = textwrap.dedent(inspect.getsource(S.condition.__wrapped__))
    src = src.replace("transactions[-1].schedule_before(transaction._body)", "transaction._body.schedule_before(transactions[-1])")
    ns = dict(S.__dict__)
    exec("from contextlib import contextmanager\n@contextmanager\n" + src[src.index("def condition"):], ns)
    S.condition = ns["condition"]
    import designs.build as B
    B.condition = ns["condition"]


CANARIES = [
    {"name": "default_ignores_later_conditions", "cfg": {"design": "cond_nb0_pr0_df1_m0", "scheduler": "eager"}, "patch": _patch_default, "expect": r"default_only_if|at_most_one"},
    {"name": "priority_order_reversed", "cfg": {"design": "cond_nb0_pr1_df0_m0", "scheduler": "eager"}, "patch": _patch_priority, "expect": r"priority_no_earlier|elaboration", "error_ok": True},
]
