"""C32 — latency measurers record true latencies.

WideFIFOLatencyMeasurer / FIFOLatencyMeasurer (per way k, inner WideFifo of start epochs, reusing C15's wf/view):
  stop[k](count) finishes n = min(count, level, S) events: histogram.add[k*S+i] runs  <=>  stop[k] runs and i < n
  (exactly one sample per finished event), with sample_i = (epoch - view[i]) mod 2^w;  start[k](count) appends `count`
  copies of the current epoch;  epoch' = epoch + 1.
  Ghost tracked event (arbitrary: chosen by a free `track` bit when it starts) with its queue position and its age in
  cycles: invariant view[pos] = epoch - age (mod 2^w); when it is popped its sample equals age mod 2^w — hence the
  true latency whenever that is <= max_latency (< 2^w).
TaggedLatencyMeasurer: ghost age per slot; invariant taken[s] => mem[s] = epoch - age_s (mod 2^w); stop(s) adds exactly
  one sample = age_s mod 2^w; slots_taken follows start/stop; the library's ERROR records fire exactly on the
  documented caller errors (start of a taken slot, stop of a free slot)."""

import logging

import z3
from amaranth import Value
from transactron.lib.fifo import WideFifo
from transactron.lib.metrics import WideFIFOLatencyMeasurer, FIFOLatencyMeasurer, TaggedLatencyMeasurer, HwMetricsEnabledKey
from transactron.lib.storage import AsyncMemoryBank
from transactron.utils.dependencies import DependencyContext, DependencyManager

from engine.th import TH
from spec.seq import N, NW, select, bit

PROPERTY = "C32"
HISTORY_LEMMAS = ['batched_queue_history', 'modcounter_history']  # lemmas/History.lean: one-cycle contracts => history-level statement (Lean 4)
LEVEL = "proof"
ASSUMPTIONS = [
    "caller obligations from the docstrings: count <= max_start_count / max_stop_count; tagged: start only free slots, stop only taken slots, no two ways start or stop the same slot in one cycle, slot < slots_number",
    "latencies are measured modulo 2^bits_for(max_latency); 'within max_latency' makes the modular value the true one (stated in the property)",
    "(slots, max_latency, ways, max_start/stop_count) swept as listed; unbounded in inputs and history length",
]


def configs(tier):
    out = []
    wide = [(2, 3, 1, 1, 1), (4, 5, 1, 2, 2), (4, 7, 2, 1, 1), (4, 2, 1, 2, 1), (3, 9, 1, 1, 2), (2, 8, 1, 1, 1)]
    if tier != "quick":
        wide += [(6, 4, 1, 3, 2), (2, 1, 2, 2, 2), (8, 6, 1, 2, 2), (1, 3, 1, 1, 1)]
    for slots, ml, ways, sc, tc in wide:
        out.append({"kind": "wide", "slots": slots, "max_latency": ml, "ways": ways, "start_count": sc, "stop_count": tc})
    # (max_latency values include exact powers of two: the widest latency "within max_latency" then needs one more bit)
    for slots, ml, ways in ([(2, 3, 1), (3, 6, 2), (2, 4, 1)] if tier == "quick" else [(1, 2, 1), (2, 3, 1), (3, 6, 2), (2, 4, 1), (4, 9, 1), (5, 1, 1), (2, 8, 1)]):
        out.append({"kind": "fifo", "slots": slots, "max_latency": ml, "ways": ways})
    for slots, ml, ways in ([(2, 3, 1), (3, 5, 2), (2, 4, 1)] if tier == "quick" else [(1, 2, 1), (2, 3, 1), (3, 5, 2), (2, 4, 1), (4, 9, 2), (4, 1, 1), (3, 8, 1)]):
        out.append({"kind": "tagged", "slots": slots, "max_latency": ml, "ways": ways})
    return out


def width_obligations(ctx, cfg, ew, samples):
    """'for latencies within max_latency': the modular difference of epochs is the true latency only if the epoch counter
    (and the histogram's sample argument) can hold max_latency itself — the link between `sample = age mod 2^w`, which the
    netlist obligations prove, and the property's `sample = age for age <= max_latency`."""
    ml = cfg["max_latency"]
    ctx.structural("epoch_counter_holds_max_latency", (1 << ew) > ml, "finite evaluation (register widths of the elaborated design)", f"epoch counter has {ew} bits, max_latency = {ml}")
    ws = sorted({len(s) for s in samples})
    ctx.structural("histogram_sample_holds_max_latency", all((1 << w) > ml for w in ws), "finite evaluation (register widths of the elaborated design)", f"sample widths {ws}, max_latency = {ml}")


def run(cfg, ctx):
    dm = DependencyManager()
    dm.add_dependency(HwMetricsEnabledKey(), True)
    if cfg["kind"] == "tagged":
        return run_tagged(cfg, ctx, dm)
    with DependencyContext(dm):
        if cfg["kind"] == "wide":
            dut = WideFIFOLatencyMeasurer("m.lat", slots_number=cfg["slots"], max_latency=cfg["max_latency"], ways=cfg["ways"],
                                          max_start_count=cfg["start_count"], max_stop_count=cfg["stop_count"])
            impl, T, S = dut, cfg["start_count"], cfg["stop_count"]
        else:
            dut = FIFOLatencyMeasurer("m.lat", slots_number=cfg["slots"], max_latency=cfg["max_latency"], ways=cfg["ways"])
            impl, T, S = dut._impl, 1, 1
        ways = cfg["ways"]
        prov = {}
        for k in range(ways):
            prov[f"start{k}"] = dut.start[k]
            prov[f"stop{k}"] = dut.stop[k]
        th = TH(dut, prov, capture=(WideFIFOLatencyMeasurer, WideFifo), dependency_manager=dm)
    hw = th.hw
    ts = hw.ts
    iloc = th.locals_of(impl)
    epoch_s = iloc["epoch"]
    EW = len(epoch_s)
    epoch = hw.sig(epoch_s)
    track_now = hw.ghost_input("track") == 1
    I = lambda t: z3.BV2Int(t) if t is not None else z3.IntVal(0)
    per_way = []
    for k in range(ways):
        fifo = impl.fifos[k]
        floc = th.locals_of(fifo)
        C = fifo.col_count
        DEPTH = fifo.depth
        ROWS = DEPTH // C
        read_ports = floc["read_ports"]
        mems = [ts.memory_of(p.data) for p in read_ports]
        rpk = [ts.readport_key(p.data) for p in read_ports]

        def fld(view, name, nxt):
            v = getattr(view, name)
            if len(Value.cast(v)) == 0:
                return z3.IntVal(0)
            return I(hw.nxt(v) if nxt else hw.sig(v))

        def rep(nxt, fifo=fifo, floc=floc, mems=mems, rpk=rpk):
            return (fld(fifo.read_idx, "col", nxt), fld(fifo.read_idx, "row", nxt), fld(fifo.write_idx, "col", nxt), fld(fifo.write_idx, "row", nxt),
                    I(hw.nxt(floc["level"]) if nxt else hw.sig(floc["level"])),
                    [ts.mem_next_rows[m_] if nxt else ts.mem_rows(m_) for m_ in mems], [ts.next[k_] if nxt else ts.state[k_] for k_ in rpk])

        def rdrow(rws, r, ROWS=ROWS):
            x = rws[ROWS - 1]
            for i in reversed(range(ROWS - 1)):
                x = z3.If(r == i, rws[i], x)
            return x

        def elem(rows_, lin, C=C, rdrow=rdrow):
            c_, r_ = lin % C, lin / C
            x = None
            for ci in reversed(range(C)):
                v = rdrow(rows_[ci], r_)
                x = v if x is None else z3.If(c_ == ci, v, x)
            return x

        def wf(st, C=C, ROWS=ROWS, DEPTH=DEPTH, rdrow=rdrow):
            rcol, rrow, wcol, wrow, L, rows, rps = st
            c = [rcol < C, rrow < ROWS, wcol < C, wrow < ROWS, L <= DEPTH, L >= 0, ((wrow * C + wcol) - (rrow * C + rcol) - L) % DEPTH == 0]
            for ci in range(C):
                addr = z3.If(ci >= rcol, rrow, (rrow + 1) % ROWS)
                c.append(z3.Implies(L != 0, rps[ci] == rdrow(rows[ci], addr)))
            return z3.And(*c)

        def view(st, C=C, DEPTH=DEPTH, elem=elem):
            rcol, rrow, wcol, wrow, L, rows, rps = st
            return [elem(rows, ((rrow * C + rcol) + j) % DEPTH) for j in range(DEPTH)]

        per_way.append(dict(fifo=fifo, C=C, DEPTH=DEPTH, rep=rep, wf=wf, view=view))
    # ghost: one tracked event in way 0
    g_tr = hw.ghost("tracked", 1)
    g_pos = hw.ghost("pos", NW)
    g_age = hw.ghost("age", NW)
    w0 = per_way[0]
    s0_0 = w0["rep"](False)
    L0_0 = s0_0[4]
    st0, sp0 = th.m["start0"], th.m["stop0"]
    cnt_start0 = I(st0.arg("count")) if cfg["kind"] == "wide" else z3.IntVal(1)
    cnt_stop0 = I(sp0.arg("count")) if cfg["kind"] == "wide" else z3.IntVal(1)
    mn = lambda a, b: z3.If(a < b, a, b)
    n_read0 = z3.If(sp0.run, mn(mn(cnt_stop0, L0_0), z3.IntVal(S)), 0)
    n_start0 = z3.If(st0.run, cnt_start0, 0)
    # ghost bookkeeping in bit-vector arithmetic (positions/counts are far below 2**NW)
    L0_bv = N(hw.sig(th.locals_of(impl.fifos[0])["level"]))
    cs_bv = N(sp0.arg("count")) if cfg["kind"] == "wide" else N(1)
    ct_bv = N(st0.arg("count")) if cfg["kind"] == "wide" else N(1)
    bmin = lambda a, b: z3.If(z3.ULT(a, b), a, b)
    n_read0_bv = z3.If(sp0.run, bmin(bmin(cs_bv, L0_bv), N(S)), N(0))
    n_start0_bv = z3.If(st0.run, ct_bv, N(0))
    begin = z3.And(g_tr == 0, track_now, z3.UGE(n_start0_bv, N(1)))
    popped = z3.And(g_tr == 1, z3.ULT(g_pos, n_read0_bv))
    pos_i = z3.BV2Int(g_pos)
    hw.set_ghost_next(g_tr, z3.If(begin, z3.BitVecVal(1, 1), z3.If(popped, z3.BitVecVal(0, 1), g_tr)))
    hw.set_ghost_next(g_pos, z3.If(begin, L0_bv - n_read0_bv, z3.If(g_tr == 1, g_pos - n_read0_bv, g_pos)))
    hw.set_ghost_next(g_age, z3.If(begin, N(1), g_age + 1))
    ctx.use(hw)
    A = []
    pres = []
    for k in range(ways):
        st, sp = th.m[f"start{k}"], th.m[f"stop{k}"]
        if cfg["kind"] == "wide":
            A += [I(st.arg("count")) <= T, I(sp.arg("count")) <= S]
        pres.append(per_way[k]["wf"](per_way[k]["rep"](False)))
    mask = (1 << EW) - 1
    agemod = lambda a: z3.Extract(EW - 1, 0, a)

    def ghost_inv(nxt):
        tr = hw.gnext(g_tr) if nxt else g_tr
        pos = hw.gnext(g_pos) if nxt else g_pos
        age = hw.gnext(g_age) if nxt else g_age
        st_ = w0["rep"](nxt)
        v = w0["view"](st_)
        ep = hw.nxt(epoch_s) if nxt else epoch
        lvl = N(hw.nxt(th.locals_of(impl.fifos[0])["level"]) if nxt else hw.sig(th.locals_of(impl.fifos[0])["level"]))
        return z3.Implies(tr == 1, z3.And(z3.ULT(pos, lvl), select(v, pos) == ep - agemod(age)))

    pre = pres + [ghost_inv(False)]
    P = lambda name, post: ctx.prove(name, post, pre=pre, assume=A, hw=hw)
    ctx.prove("init.wf", ts.at_init(z3.And(*pres, ghost_inv(False))))
    P("epoch.step", hw.nxt(epoch_s) == epoch + 1)
    width_obligations(ctx, cfg, EW, [a.data_in.sample for a in impl.histogram.add])
    for k in range(ways):
        pw = per_way[k]
        P(f"way{k}.step.wf", pw["wf"](pw["rep"](True)))
        s0 = pw["rep"](False)
        L0 = s0[4]
        v0 = pw["view"](s0)
        st, sp = th.m[f"start{k}"], th.m[f"stop{k}"]
        cnt_stop = I(sp.arg("count")) if cfg["kind"] == "wide" else z3.IntVal(1)
        cnt_start = I(st.arg("count")) if cfg["kind"] == "wide" else z3.IntVal(1)
        n_read = z3.If(sp.run, mn(mn(cnt_stop, L0), z3.IntVal(S)), 0)
        P(f"way{k}.stop.ready_iff_event_pending", z3.Implies(sp.en, sp.done == (L0 != 0)))
        P(f"way{k}.start.accepts_iff_it_fits", z3.Implies(st.en, st.done == z3.And(L0 < pw["DEPTH"], cnt_start <= pw["DEPTH"] - L0)))
        for i in range(S):
            add = impl.histogram.add[k * S + i]
            arun = hw.b(add.run)
            P(f"way{k}.add[{i}].one_sample_per_finished_event", arun == z3.And(sp.run, i < n_read))
            P(f"way{k}.add[{i}].sample_is_epoch_difference", z3.Implies(arun, hw.sig(add.data_in.sample) == epoch - v0[i]))
        # start appends `count` copies of the current epoch, stop drops the n oldest (whole view)
        s1 = pw["rep"](True)
        v1 = pw["view"](s1)
        n_start = z3.If(st.run, cnt_start, 0)
        keep = L0 - n_read
        conds = [s1[4] == L0 - n_read + n_start]
        for j in range(pw["DEPTH"]):
            old = None
            for jj in reversed(range(pw["DEPTH"])):
                old = v0[jj] if old is None else z3.If(j + n_read == jj, v0[jj], old)
            conds.append(z3.Implies(j < s1[4], v1[j] == z3.If(j < keep, old, epoch)))
        P(f"way{k}.step.view", z3.And(*conds))
    P("ghost.step.inv", ghost_inv(True))
    # when the tracked event is popped, the sample added for it is its age
    fs = []
    for i in range(S):
        add = impl.histogram.add[i]
        fs.append(z3.Implies(z3.And(popped, g_pos == i), z3.And(hw.b(add.run), hw.sig(add.data_in.sample) == agemod(g_age))))
    P("tracked_event.sample_is_its_age", z3.And(*fs))
    ctx.cover("tracked_popped", z3.And(*pre, *A, popped), hw=hw)
    ctx.cover("tracking_begins", z3.And(*pre, *A, begin), hw=hw)
    errs = th.log_records(logging.ERROR)
    for r, trig in errs:
        if trig is not None:
            P(f"noassert.{r.location[1]}", z3.Not(trig))


def run_tagged(cfg, ctx, dm):
    slots, ways = cfg["slots"], cfg["ways"]
    with DependencyContext(dm):
        dut = TaggedLatencyMeasurer("m.lat", slots_number=slots, max_latency=cfg["max_latency"], ways=ways)
        prov = {}
        for k in range(ways):
            prov[f"start{k}"] = dut.start[k]
            prov[f"stop{k}"] = dut.stop[k]
        th = TH(dut, prov, capture=(TaggedLatencyMeasurer, AsyncMemoryBank), dependency_manager=dm)
    hw = th.hw
    ts = hw.ts
    loc = th.locals_of(dut)
    epoch_s, taken_s = loc["epoch"], loc["slots_taken"]
    EW = len(epoch_s)
    mloc = th.locals_of(dut.slots)
    midx = ts.memory_of(mloc["read_port"][0].data)
    ages = [hw.ghost(f"age{s}", NW) for s in range(slots)]
    nat = lambda t: N(t) if t is not None else N(0)
    starts = [(th.m[f"start{k}"].run, nat(th.m[f"start{k}"].arg("slot"))) for k in range(ways)]
    stops = [(th.m[f"stop{k}"].run, nat(th.m[f"stop{k}"].arg("slot"))) for k in range(ways)]
    for s in range(slots):
        started = z3.Or(*[z3.And(r, a == s) for r, a in starts])
        hw.set_ghost_next(ages[s], z3.If(started, N(1), ages[s] + 1))
    ctx.use(hw)
    epoch = hw.sig(epoch_s)
    taken = hw.sig(taken_s)
    agemod = lambda a: z3.Extract(EW - 1, 0, a)

    def inv(nxt):
        rows = ts.mem_next_rows[midx] if nxt else ts.mem_rows(midx)
        tk = hw.nxt(taken_s) if nxt else taken
        ep = hw.nxt(epoch_s) if nxt else epoch
        return z3.And(*[z3.Implies(bit(tk, s), rows[s] == ep - agemod(hw.gnext(ages[s]) if nxt else ages[s])) for s in range(slots)])

    istaken = lambda a: z3.Or(*[z3.And(a == s, bit(taken, s)) for s in range(slots)])
    A = []
    for r, a in starts:
        A.append(z3.Implies(r, z3.And(z3.ULT(a, N(slots)), z3.Not(istaken(a)))))
    for r, a in stops:
        A.append(z3.Implies(r, z3.And(z3.ULT(a, N(slots)), istaken(a))))
    for i in range(ways):
        for j in range(i):
            A.append(z3.Not(z3.And(starts[i][0], starts[j][0], starts[i][1] == starts[j][1])))
            A.append(z3.Not(z3.And(stops[i][0], stops[j][0], stops[i][1] == stops[j][1])))
    pre = [inv(False)]
    P = lambda name, post, assume=A: ctx.prove(name, post, pre=pre, assume=assume, hw=hw)
    ctx.prove("init.wf", ts.at_init(z3.And(inv(False), taken == 0)))
    P("step.wf", inv(True))
    P("epoch.step", hw.nxt(epoch_s) == epoch + 1)
    width_obligations(ctx, cfg, EW, [a.data_in.sample for a in dut.histogram.add])
    tk_n = hw.nxt(taken_s)
    for s in range(slots):
        started = z3.Or(*[z3.And(r, a == s) for r, a in starts])
        stopped = z3.Or(*[z3.And(r, a == s) for r, a in stops])
        P(f"slot{s}.taken_follows_start_stop", bit(tk_n, s) == z3.Or(started, z3.And(bit(taken, s), z3.Not(stopped))))
    for k in range(ways):
        add = dut.histogram.add[k]
        sp_run, sp_slot = stops[k]
        P(f"stop{k}.adds_exactly_one_sample", hw.b(add.run) == sp_run)
        P(f"stop{k}.sample_is_age_of_its_slot", z3.Implies(sp_run, hw.sig(add.data_in.sample) == agemod(select(ages, sp_slot))))
        P(f"start{k}.always_ready", z3.Implies(th.m[f"start{k}"].en, th.m[f"start{k}"].done))
        P(f"stop{k}.always_ready", z3.Implies(th.m[f"stop{k}"].en, th.m[f"stop{k}"].done))
    # the library's own ERROR records fire exactly on the documented caller errors
    errs = th.log_records(logging.ERROR)
    if len(errs) != 2 * ways or any(t is None for _, t in errs):
        raise RuntimeError(f"expected {2 * ways} ERROR-level records with signal triggers, got {len(errs)}")
    range_only = [z3.Implies(r, z3.ULT(a, N(slots))) for r, a in starts + stops]
    for r, trig in errs:
        P(f"noassert.{r.format_spec[0].fmt_or_str.strip().replace(' ', '_')}", z3.Not(trig))
    for k in range(ways):
        t_start, t_stop = errs[2 * k][1], errs[2 * k + 1][1]
    # which record belongs to which method: decided by the message
    for r, trig in errs:
        msg = "".join(c.fmt_or_str for c in r.format_spec)
        if "taken again" in msg:
            cands = [z3.And(run, istaken(a)) for run, a in starts]
        else:
            cands = [z3.And(run, z3.Not(istaken(a))) for run, a in stops]
        ctx.prove(f"library_assertion[{msg.split()[0]}_{msg.split()[1]}].fires_only_on_caller_error", z3.Implies(trig, z3.Or(*cands)), pre=pre, assume=range_only, hw=hw)
    ctx.cover("start+stop", z3.And(*pre, *A, starts[0][0], stops[0][0]), hw=hw) if slots > 1 else None
    ctx.cover("stop", z3.And(*pre, *A, stops[0][0]), hw=hw)


def _patch_duration():
    import transactron.lib.metrics as MT
    import inspect, textwrap

    src = textwrap.dedent(inspect.getsource(MT.WideFIFOLatencyMeasurer.elaborate))
    old = "duration = (epoch - ret.data[i]).as_unsigned()[:-1]"
    assert old in src
    src = src.replace(old, "duration = (epoch - ret.data[0]).as_unsigned()[:-1]")
    ns = dict(MT.__dict__)
    exec(src, ns)
    MT.WideFIFOLatencyMeasurer.elaborate = ns["elaborate"]


def _patch_tagged():
    import transactron.lib.metrics as MT
    import inspect, textwrap

    src = textwrap.dedent(inspect.getsource(MT.TaggedLatencyMeasurer.elaborate))
    old = "m.d.comb += slots_taken_stop[k].eq(~(C(1, self.slots_number) << slot))"
    assert old in src
    src = src.replace(old, "m.d.comb += slots_taken_stop[k].eq(~(C(1, self.slots_number) << slot) & ~C(1, self.slots_number))")
    ns = dict(MT.__dict__)
    exec(src, ns)
    MT.TaggedLatencyMeasurer.elaborate = ns["elaborate"]


CANARIES = [
    {"name": "all_samples_use_oldest_start", "cfg": {"kind": "wide", "slots": 4, "max_latency": 5, "ways": 1, "start_count": 2, "stop_count": 2}, "patch": _patch_duration, "expect": r"sample_is_epoch_difference|tracked_event"},
    {"name": "stop_also_frees_slot_zero", "cfg": {"kind": "tagged", "slots": 3, "max_latency": 5, "ways": 2}, "patch": _patch_tagged, "expect": r"taken_follows"},
]
