"""C13 — simultaneous methods run together and exchange data.

Designs: the real Connect(layout, rev_layout) with writer transactions (each also calling a method A with
free readiness) and reader transactions (also calling B); and plain a.simultaneous(b) on two user methods.
Obligations for all inputs: read.run == write.run; when running, read's result is write's argument and
write's result is read's argument; with one writer and one reader the pair runs iff both callers are fully
enabled (own ready, readiness of A and B)."""

import z3
from amaranth import Elaboratable, Signal
from transactron import TModule, Method, Transaction, def_method
from transactron.core.context import TransactronContextElaboratable
from transactron.lib.connectors import Connect

from engine.hw import HW, Recorder
from spec.seq import at_most_one

PROPERTY = "C13"
LEVEL = "proof"
ASSUMPTIONS = [
    "design shapes: Connect with 1-2 writers and 1-2 readers, payload / reverse payload widths as listed; a.simultaneous(b) on two user methods; simultaneous() declared on two or three transactions, on a transaction and a method, on three methods, each with and without an unrelated Connect in the design; all inputs and register values universally quantified per design",
]
TECHNIQUE = "contracts on the elaborated netlist of designs using Connect / simultaneous(); z3, all inputs"


def configs(tier):
    out = []
    for nw in (1, 2):
        for nr in (1, 2):
            for w, rw in ((2, 0), (2, 2), (0, 1)):
                out.append({"kind": "connect", "writers": nw, "readers": nr, "w": w, "rw": rw})
    out.append({"kind": "simultaneous_methods"})
    # simultaneity declared on transactions only (no method of the design carries a simultaneous() relation), on a
    # transaction and a method, and on three bodies at once; optionally with an unrelated Connect elsewhere in the design
    # one side of a Connect called from a transaction nested in a method that its caller calls conditionally
    for side in ("writer", "reader"):
        for how in ("if", "enable_call"):
            out.append({"kind": "connect_nested", "nested_side": side, "guard": how})
    for kind in ("tt", "tm", "mmm", "ttt"):
        for extra in (False, True):
            out.append({"kind": "simultaneous_bodies", "shape": kind, "unrelated_connect": extra})
    return out


class ConnectDesign(Elaboratable):
    def __init__(self, cfg):
        self.cfg = cfg
        self.ins, self.outs = [], []

    def sig(self, name, w=1, inp=True):
        s = Signal(w, name=name)
        (self.ins if inp else self.outs).append(s)
        return s

    def elaborate(self, platform):
        m = TModule()
        c = self.cfg
        lay = [("d", c["w"])] if c["w"] else []
        rlay = [("r", c["rw"])] if c["rw"] else []
        m.submodules.conn = self.conn = conn = Connect(lay, rlay)
        self.A, self.B = Method(name="A"), Method(name="B")
        self.a_rdy, self.b_rdy = self.sig("a_rdy"), self.sig("b_rdy")

        @def_method(m, self.A, ready=self.a_rdy, nonexclusive=True)
        def _():
            pass

        @def_method(m, self.B, ready=self.b_rdy, nonexclusive=True)
        def _():
            pass

        self.writers, self.readers = [], []
        for i in range(c["writers"]):
            rdy = self.sig(f"w{i}_rdy")
            arg = self.sig(f"w{i}_arg", c["w"]) if c["w"] else None
            got = self.sig(f"w{i}_got", c["rw"], inp=False) if c["rw"] else None
            t = Transaction(name=f"W{i}")
            with t.body(m, ready=rdy):
                ret = conn.write(m, d=arg) if c["w"] else conn.write(m)
                self.A(m)
                if got is not None:
                    m.d.top_comb += got.eq(ret.r)
            self.writers.append((t, rdy, arg, got))
        for i in range(c["readers"]):
            rdy = self.sig(f"r{i}_rdy")
            arg = self.sig(f"r{i}_arg", c["rw"]) if c["rw"] else None
            got = self.sig(f"r{i}_got", c["w"], inp=False) if c["w"] else None
            t = Transaction(name=f"R{i}")
            with t.body(m, ready=rdy):
                ret = conn.read(m, r=arg) if c["rw"] else conn.read(m)
                self.B(m)
                if got is not None:
                    m.d.top_comb += got.eq(ret.d)
            self.readers.append((t, rdy, arg, got))
        return m


class SimDesign(Elaboratable):
    def __init__(self):
        self.ins, self.outs = [], []

    def elaborate(self, platform):
        m = TModule()
        self.M1, self.M2 = Method(name="M1", i=[("x", 2)]), Method(name="M2", o=[("y", 2)])
        self.r1, self.r2, self.t1r, self.t2r = (Signal(name=n) for n in ("m1_rdy", "m2_rdy", "t1_rdy", "t2_rdy"))
        self.y = Signal(2, name="y_val")
        self.x1 = Signal(2, name="x1")
        self.ins += [self.r1, self.r2, self.t1r, self.t2r, self.y, self.x1]
        self.M1.simultaneous(self.M2)

        @def_method(m, self.M1, ready=self.r1)
        def _(x):
            pass

        @def_method(m, self.M2, ready=self.r2)
        def _():
            return {"y": self.y}

        self.T1, self.T2 = Transaction(name="T1"), Transaction(name="T2")
        with self.T1.body(m, ready=self.t1r):
            self.M1(m, x=self.x1)
        with self.T2.body(m, ready=self.t2r):
            self.M2(m)
        return m


class NestedConnectDesign(Elaboratable):
    """Connect(d:2, r:2).  The `nested_side` end is called by a transaction TN nested in the body of method `push`, which
    transaction OUTER calls under a free guard (m.If or enable_call); the other end is called by an independent transaction
    OTHER.  All readiness, guards and payloads are free inputs."""

    def __init__(self, nested_side, guard):
        self.nested_side, self.guard = nested_side, guard
        self.ins, self.outs = [], []

    def elaborate(self, platform):
        m = TModule()
        S = lambda name, w=1: Signal(w, name=name)
        m.submodules.conn = self.conn = conn = Connect([("d", 2)], [("r", 2)])
        self.g, self.outer_rdy, self.push_rdy, self.tn_rdy, self.other_rdy = S("guard"), S("outer_rdy"), S("push_rdy"), S("tn_rdy"), S("other_rdy")
        self.x_n, self.x_o = S("x_nested", 2), S("x_other", 2)
        self.got_n, self.got_o = S("got_nested", 2), S("got_other", 2)
        self.ins += [self.g, self.outer_rdy, self.push_rdy, self.tn_rdy, self.other_rdy, self.x_n, self.x_o]
        self.outs += [self.got_n, self.got_o]
        self.push = Method(name="push")
        self.TN, self.OUTER, self.OTHER = Transaction(name="TN"), Transaction(name="OUTER"), Transaction(name="OTHER")
        w_side = self.nested_side == "writer"

        def end(mine, arg, got):
            ret = conn.write(m, d=arg) if mine else conn.read(m, r=arg)
            m.d.top_comb += got.eq(ret.r if mine else ret.d)

        @def_method(m, self.push, ready=self.push_rdy)
        def _():
            with self.TN.body(m, ready=self.tn_rdy):
                end(w_side, self.x_n, self.got_n)

        with self.OUTER.body(m, ready=self.outer_rdy):
            if self.guard == "if":
                with m.If(self.g):
                    self.push(m)
            else:
                self.push(m, enable_call=self.g)
        with self.OTHER.body(m, ready=self.other_rdy):
            end(not w_side, self.x_o, self.got_o)
        return m


def run_nested(cfg, ctx):
    from amaranth.hdl._ir import Fragment

    dsg = NestedConnectDesign(cfg["nested_side"], cfg["guard"])
    top = TransactronContextElaboratable(dsg)
    rec = Recorder(())
    with rec:
        frag = Fragment.get(top, None)
    conn = dsg.conn
    hw = HW(frag, dsg.ins, dsg.outs + [conn.read.run, conn.write.run, dsg.push.run, dsg.TN.run, dsg.OUTER.run, dsg.OTHER.run])
    hw.rec = rec
    ctx.use(hw)
    b = hw.b
    rr, wr = b(conn.read.run), b(conn.write.run)
    tn, outer, other, push = b(dsg.TN.run), b(dsg.OUTER.run), b(dsg.OTHER.run), b(dsg.push.run)
    ctx.prove("read_and_write_run_in_the_same_cycles", rr == wr, hw=hw)
    ctx.prove("nested_caller_and_other_caller_run_together", tn == other, hw=hw)
    ctx.prove("nested_transaction_runs_only_with_its_enclosing_method", z3.Implies(tn, push), hw=hw)
    ctx.prove("enclosing_method_runs_iff_called", push == z3.And(outer, b(dsg.g)), hw=hw)
    # the pair runs iff both callers are fully enabled; the conditionally calling transaction is never blocked by the pair
    full = z3.And(b(dsg.outer_rdy), b(dsg.g), b(dsg.push_rdy), b(dsg.tn_rdy), b(dsg.other_rdy))
    ctx.prove("pair_runs_iff_both_callers_fully_enabled", rr == full, hw=hw)
    n_is_writer = cfg["nested_side"] == "writer"
    x_w, x_r = (dsg.x_n, dsg.x_o) if n_is_writer else (dsg.x_o, dsg.x_n)
    got_w, got_r = (dsg.got_n, dsg.got_o) if n_is_writer else (dsg.got_o, dsg.got_n)
    ctx.prove("reader_receives_written_data", z3.Implies(rr, hw.sig(got_r) == hw.sig(x_w)), hw=hw)
    ctx.prove("writer_receives_reverse_data", z3.Implies(wr, hw.sig(got_w) == hw.sig(x_r)), hw=hw)
    ctx.cover("transfer", z3.And(rr, wr), hw=hw)
    ctx.cover("other_side_ready_but_guard_false", z3.And(b(dsg.other_rdy), b(dsg.outer_rdy), z3.Not(b(dsg.g))), hw=hw)


class BodiesDesign(Elaboratable):
    """n sides; side i is a transaction Ti (free ready) calling its own method Ci (free ready) and, for 'm' sides, a user
    method Mi (free ready) through which the simultaneity is declared. Side i drives d_i := x_i in its body (comb) and
    copies the next side's d into got_i, so that data handed over in the same cycle is observable in both directions."""

    def __init__(self, shape, unrelated_connect):
        self.shape, self.unrelated_connect = shape, unrelated_connect
        self.ins, self.outs = [], []

    def elaborate(self, platform):
        m = TModule()
        n = len(self.shape)
        S = lambda name, w=1: Signal(w, name=name)
        self.t_rdy = [S(f"t{i}_rdy") for i in range(n)]
        self.c_rdy = [S(f"c{i}_rdy") for i in range(n)]
        self.m_rdy = [S(f"m{i}_rdy") for i in range(n)]
        self.x = [S(f"x{i}", 2) for i in range(n)]
        self.d = [S(f"d{i}", 2) for i in range(n)]
        self.got = [S(f"got{i}", 2) for i in range(n)]
        self.ins += self.t_rdy + self.c_rdy + self.x + [r for r, k in zip(self.m_rdy, self.shape) if k == "m"]
        self.outs += self.d + self.got
        self.C = [Method(name=f"C{i}") for i in range(n)]
        self.M = [Method(name=f"M{i}") if k == "m" else None for i, k in enumerate(self.shape)]
        self.T = [Transaction(name=f"T{i}") for i in range(n)]
        for i in range(n):
            @def_method(m, self.C[i], ready=self.c_rdy[i])
            def _():
                pass

        def side_effects(i):
            m.d.comb += self.d[i].eq(self.x[i])
            m.d.comb += self.got[i].eq(self.d[(i + 1) % n])

        def define_m(i):
            @def_method(m, self.M[i], ready=self.m_rdy[i])
            def _():
                side_effects(i)

        for i, k in enumerate(self.shape):
            if k == "m":
                define_m(i)

        for i, k in enumerate(self.shape):
            with self.T[i].body(m, ready=self.t_rdy[i]):
                self.C[i](m)
                if k == "m":
                    self.M[i](m)
                else:
                    side_effects(i)
        ends = [self.M[i] if k == "m" else self.T[i] for i, k in enumerate(self.shape)]
        ends[0].simultaneous(*ends[1:])
        self.ends = ends
        if self.unrelated_connect:
            m.submodules.conn = conn = Connect([("d", 1)])
            self.uw, self.ur = S("uw_rdy"), S("ur_rdy")
            self.ins += [self.uw, self.ur]
            with Transaction(name="UW").body(m, ready=self.uw):
                conn.write(m, d=1)
            with Transaction(name="UR").body(m, ready=self.ur):
                conn.read(m)
        return m


def run_bodies(cfg, ctx):
    from amaranth.hdl._ir import Fragment

    dsg = BodiesDesign(cfg["shape"], cfg["unrelated_connect"])
    top = TransactronContextElaboratable(dsg)
    rec = Recorder(())
    with rec:
        frag = Fragment.get(top, None)
    n = len(cfg["shape"])
    hw = HW(frag, dsg.ins, dsg.outs + [e.run for e in dsg.ends] + [t.run for t in dsg.T])
    hw.rec = rec
    ctx.use(hw)
    runs = [hw.b(e.run) for e in dsg.ends]
    truns = [hw.b(t.run) for t in dsg.T]
    enabled = z3.And(*[hw.b(s) for s in dsg.t_rdy + dsg.c_rdy + [r for r, k in zip(dsg.m_rdy, cfg["shape"]) if k == "m"]])
    for i in range(1, n):
        ctx.prove(f"{dsg.ends[0].name}|{dsg.ends[i].name}.simultaneous_bodies_run_in_the_same_cycles", runs[0] == runs[i], hw=hw)
        ctx.prove(f"T0|T{i}.callers_run_in_the_same_cycles", truns[0] == truns[i], hw=hw)
    ctx.prove("run_iff_all_sides_fully_enabled", runs[0] == enabled, hw=hw)
    for i in range(n):
        j = (i + 1) % n
        ctx.prove(f"side{i}.receives_data_of_side{j}_in_the_same_cycle", z3.Implies(runs[i], hw.sig(dsg.got[i]) == hw.sig(dsg.x[j])), hw=hw)
        ctx.prove(f"side{i}.effects_follow_run", hw.sig(dsg.d[i]) == z3.If(runs[i], hw.sig(dsg.x[i]), z3.BitVecVal(0, 2)), hw=hw)
    ctx.cover("all_run", z3.And(*runs), hw=hw)


def run(cfg, ctx):
    from amaranth.hdl._ir import Fragment

    if cfg["kind"] == "simultaneous_bodies":
        return run_bodies(cfg, ctx)
    if cfg["kind"] == "connect_nested":
        return run_nested(cfg, ctx)

    if cfg["kind"] == "connect":
        dsg = ConnectDesign(cfg)
        top = TransactronContextElaboratable(dsg)
        rec = Recorder(())
        with rec:
            frag = Fragment.get(top, None)
        conn = dsg.conn
        outs = dsg.outs + [conn.read.run, conn.write.run] + [t.run for t, *_ in dsg.writers + dsg.readers]
        hw = HW(frag, dsg.ins, outs)
        hw.rec = rec
        ctx.use(hw)
        rr, wr = hw.b(conn.read.run), hw.b(conn.write.run)
        ctx.prove("read_and_write_run_in_the_same_cycles", rr == wr, hw=hw)
        wruns = [hw.b(t.run) for t, *_ in dsg.writers]
        rruns = [hw.b(t.run) for t, *_ in dsg.readers]
        ctx.prove("write.runs_iff_a_writer_runs", wr == z3.Or(*wruns), hw=hw)
        ctx.prove("read.runs_iff_a_reader_runs", rr == z3.Or(*rruns), hw=hw)
        ctx.prove("at_most_one_writer_and_reader", z3.And(at_most_one(wruns), at_most_one(rruns)), hw=hw)
        for (tw, _, warg, wgot), wrun in zip(dsg.writers, wruns):
            for (tr, _, rarg, rgot), rrun in zip(dsg.readers, rruns):
                both = z3.And(wrun, rrun)
                if warg is not None:
                    ctx.prove(f"{tw.name}->{tr.name}.reader_receives_written_data", z3.Implies(both, hw.sig(rgot) == hw.sig(warg)), hw=hw)
                if rarg is not None:
                    ctx.prove(f"{tr.name}->{tw.name}.writer_receives_reverse_data", z3.Implies(both, hw.sig(wgot) == hw.sig(rarg)), hw=hw)
        a, bb = hw.b(dsg.a_rdy), hw.b(dsg.b_rdy)
        en_w = [z3.And(hw.b(rdy), a) for _, rdy, *_ in dsg.writers]
        en_r = [z3.And(hw.b(rdy), bb) for _, rdy, *_ in dsg.readers]
        if len(wruns) == 1 and len(rruns) == 1:
            ctx.prove("pair_runs_iff_both_callers_fully_enabled", wruns[0] == z3.And(en_w[0], en_r[0]), hw=hw)
            ctx.prove("reader_runs_iff_writer_runs", wruns[0] == rruns[0], hw=hw)
        else:
            ctx.prove("some_pair_runs_iff_a_writer_and_a_reader_are_fully_enabled", z3.Or(*wruns) == z3.And(z3.Or(*en_w), z3.Or(*en_r)), hw=hw)
            for wrun, e in zip(wruns, en_w):
                ctx.prove("writer_runs_only_when_enabled_with_a_reader", z3.Implies(wrun, z3.And(e, z3.Or(*rruns))), hw=hw)
            for rrun, e in zip(rruns, en_r):
                ctx.prove("reader_runs_only_when_enabled_with_a_writer", z3.Implies(rrun, z3.And(e, z3.Or(*wruns))), hw=hw)
        ctx.cover("transfer", z3.And(wr, rr), hw=hw)
    else:
        dsg = SimDesign()
        top = TransactronContextElaboratable(dsg)
        rec = Recorder(())
        with rec:
            frag = Fragment.get(top, None)
        hw = HW(frag, dsg.ins, [dsg.M1.run, dsg.M2.run, dsg.T1.run, dsg.T2.run, dsg.M1.data_in.as_value()])
        hw.rec = rec
        ctx.use(hw)
        r1, r2 = hw.b(dsg.M1.run), hw.b(dsg.M2.run)
        ctx.prove("simultaneous_methods_run_in_the_same_cycles", r1 == r2, hw=hw)
        ctx.prove("callers_run_together", hw.b(dsg.T1.run) == hw.b(dsg.T2.run), hw=hw)
        allen = z3.And(*[hw.b(s) for s in (dsg.r1, dsg.r2, dsg.t1r, dsg.t2r)])
        ctx.prove("run_iff_both_sides_fully_enabled", r1 == allen, hw=hw)
        ctx.prove("argument_delivered", z3.Implies(r1, hw.sig(dsg.M1.data_in.x) == hw.sig(dsg.x1)), hw=hw)
        ctx.cover("both_run", z3.And(r1, r2), hw=hw)


def _patch_simultaneous():
    import transactron.core.manager as MG
    import inspect, textwrap

    src = textwrap.dedent(inspect.getsource(MG.TransactionManager._simultaneous))
    # merged transaction calls only the first member of each group
    src = src.replace("for transaction in group:\n                    nontrivial_deps", "for transaction in list(group)[:1]:\n                    nontrivial_deps")
    assert "list(group)[:1]" in src
    ns = dict(MG.__dict__)
    exec(src, ns)
    MG.TransactionManager._simultaneous = ns["_simultaneous"]


def _patch_connect():
    import transactron.lib.connectors as C
    import inspect, textwrap

    src = textwrap.dedent(inspect.getsource(C.Connect.elaborate))
    src = src.replace("m.d.av_comb += rev_read_value.eq(arg)", "m.d.av_comb += rev_read_value.eq(~arg.as_value())")
    ns = dict(C.__dict__)
    exec(src, ns)
    C.Connect.elaborate = ns["elaborate"]


CANARIES = [
    {"name": "merged_transaction_calls_one_member", "cfg": {"kind": "connect", "writers": 1, "readers": 1, "w": 2, "rw": 2}, "patch": _patch_simultaneous, "expect": r"same_cycles|iff", "error_ok": True},
    {"name": "reverse_data_corrupted", "cfg": {"kind": "connect", "writers": 1, "readers": 1, "w": 2, "rw": 2}, "patch": _patch_connect, "expect": r"writer_receives_reverse_data"},
]
