"""Function contract of transactron.core.schedulers.eager_deterministic_cc_scheduler, exhaustive in small conflict graphs.

The real function is called directly — outside any TransactionManager — on real `Body` objects (their
`ready`/`runnable` signals are free input ports, `run` is what the function drives), for EVERY labelled undirected
graph on n vertices (n <= 4 quick, n <= 5 thorough: 1 + 2 + 8 + 64 + 1024 graphs), once per connected component as
the manager does, and for several priority orders.  On the emitted module, for all input valuations:

  requires   gr symmetric and irreflexive, cc a connected component of gr, porder a bijection onto 0..n-1
  ensures    [C03]  run_k  =>  ready_k and runnable_k
             [C01]  edge(a, b)  =>  not (run_a and run_b)
             [C07]  ready_k and runnable_k and not run_k  =>  some neighbour j of k runs
             [C08]  ... and that neighbour has porder[j] < porder[k]   (a request is only ever blocked by a
                    neighbour that is earlier in the priority order; in particular for an edge (hi, lo) with
                    porder[hi] < porder[lo]: hi requesting and lo running => another neighbour of hi runs)

These are the scheduler's share of C01/C03/C07/C08; the manager's share (cgr = SpecConf, porder respects the
priorities, runnable = readiness of the call tree) is carried by the per-design obligations of corelib."""

import itertools
import random

import z3
from amaranth import Elaboratable, Module
from amaranth.lib.data import StructLayout

from engine.hw import HW


def all_graphs(n):
    pairs = list(itertools.combinations(range(n), 2))
    for mask in range(1 << len(pairs)):
        yield [p for i, p in enumerate(pairs) if mask >> i & 1]


def components(n, edges):
    adj = {i: set() for i in range(n)}
    for a, b in edges:
        adj[a].add(b)
        adj[b].add(a)
    seen, out = set(), []
    for i in range(n):
        if i in seen:
            continue
        comp, stack = set(), [i]
        while stack:
            u = stack.pop()
            if u in comp:
                continue
            comp.add(u)
            stack.extend(adj[u] - comp)
        seen |= comp
        out.append(comp)
    return adj, out


def orders(n, seed):
    ident = list(range(n))
    out = [ident, ident[::-1]]
    rng = random.Random(seed)
    p = ident[:]
    rng.shuffle(p)
    if p not in out:
        out.append(p)
    return out


def configs(tier):
    ns = [1, 2, 3, 4] if tier == "quick" else [1, 2, 3, 4, 5]
    out = []
    for n in ns:
        total = 1 << (n * (n - 1) // 2)
        chunk = 16 if n <= 4 else 32
        for lo in range(0, total, chunk):
            out.append({"kind": "schedfn", "n": n, "graphs": [lo, min(total, lo + chunk)]})
    return out


class _Top(Elaboratable):
    def __init__(self, n, edges, order):
        from transactron.core.body import Body

        self.bodies = [Body(name=f"t{i}", owner=None, i=StructLayout({}), o=StructLayout({}), src_loc=("schedfn", i)) for i in range(n)]
        self.n, self.edges, self.order = n, edges, order

    def elaborate(self, platform):
        import transactron.core.schedulers as S  # looked up at elaboration so that in-process canary patches are seen

        m = Module()
        adj, comps = components(self.n, self.edges)
        gr = {self.bodies[i]: {self.bodies[j] for j in adj[i]} for i in range(self.n)}
        porder = {self.bodies[i]: self.order[i] for i in range(self.n)}
        for ci, comp in enumerate(comps):
            cc = {self.bodies[i] for i in comp}
            m.submodules[f"sched{ci}"] = S.eager_deterministic_cc_scheduler(None, gr, cc, porder)
        return m


def run(pid, cfg, ctx):
    n = cfg["n"]
    lo, hi = cfg["graphs"]
    graphs = list(all_graphs(n))[lo:hi]
    first = True
    for gi, edges in enumerate(graphs, start=lo):
        for oi, order in enumerate(orders(n, 7919 * n + gi)):
            top = _Top(n, edges, order)
            ins = [s for b in top.bodies for s in (b.ready, b.runnable)]
            hw = HW(top, ins, [b.run for b in top.bodies], capture=())
            if first:
                ctx.use(hw, xval_cycles=4)
                first = False
            else:
                ctx.functions.update(hw.functions())
            run_ = [hw.b(b.run) for b in top.bodies]
            req = [z3.And(hw.b(b.ready), hw.b(b.runnable)) for b in top.bodies]
            adj, _ = components(n, edges)
            tag = f"g{gi}.o{oi}"
            if pid == "C03":
                ctx.prove(f"scheduler[{tag}].run_implies_ready_and_runnable", z3.And(*[z3.Implies(run_[k], req[k]) for k in range(n)]), hw=hw)
            elif pid == "C01":
                if edges:
                    ctx.prove(f"scheduler[{tag}].neighbours_never_both_run", z3.And(*[z3.Not(z3.And(run_[a], run_[b])) for a, b in edges]), hw=hw)
                else:
                    ctx.prove(f"scheduler[{tag}].isolated_vertices_run_when_requested", z3.And(*[run_[k] == req[k] for k in range(n)]), hw=hw)
            elif pid == "C07":
                ctx.prove(f"scheduler[{tag}].request_not_granted_implies_neighbour_runs",
                          z3.And(*[z3.Implies(z3.And(req[k], z3.Not(run_[k])), z3.Or(*[run_[j] for j in sorted(adj[k])]) if adj[k] else z3.BoolVal(False)) for k in range(n)]), hw=hw)
            elif pid == "C08":
                ctx.prove(f"scheduler[{tag}].blocked_only_by_earlier_neighbour",
                          z3.And(*[z3.Implies(z3.And(req[k], z3.Not(run_[k])),
                                              z3.Or(*[run_[j] for j in sorted(adj[k]) if order[j] < order[k]]) if any(order[j] < order[k] for j in adj[k]) else z3.BoolVal(False)) for k in range(n)]), hw=hw)
            else:
                raise ValueError(pid)
    if graphs and n >= 2:
        ctx.cover(f"scheduler[n={n}].all_request", z3.And(*req), hw=hw)


# ------------------------------------------------------------------------------------------------
# trivial_roundrobin_cc_scheduler: function contract, per component size (the function looks at nothing but |cc|)


class _TopRR(Elaboratable):
    def __init__(self, n):
        from transactron.core.body import Body

        self.bodies = [Body(name=f"t{i}", owner=None, i=StructLayout({}), o=StructLayout({}), src_loc=("schedfn", i)) for i in range(n)]
        self.n = n

    def elaborate(self, platform):
        import transactron.core.schedulers as S

        m = Module()
        gr = {b: {c for c in self.bodies if c is not b} for b in self.bodies}
        porder = {b: i for i, b in enumerate(self.bodies)}
        # the manager passes the component as a set; the function iterates it, so the body -> arbiter slot
        # assignment is whatever that iteration order is: the contract locates each body's slot by solver query
        m.submodules.sched = S.trivial_roundrobin_cc_scheduler(None, gr, set(self.bodies), porder)
        return m


def configs_rr(tier, small=False):
    ns = range(1, 5) if (small and tier == "quick") else range(1, 7) if tier == "quick" else range(1, 11)
    return [{"kind": "schedfn_rr", "n": n} for n in ns]


def run_rr(pid, cfg, ctx):
    """requires  cc non-empty
    ensures   run_k => ready_k and runnable_k;  at most one run;  some request => some run;
              grant register one-hot (inductive);  ghost wait counter of every body <= n-1 (inductive ranking
              invariant w_k + ((slot_k - last_grant - 1) mod n) <= n-1), i.e. a body that keeps requesting runs
              within n cycles, from every state satisfying the invariant."""
    from transactron.utils.amaranth_ext.elaboratables import OneHotRoundRobin
    from spec.seq import N, NW, at_most_one, bit, le, nmod

    n = cfg["n"]
    top = _TopRR(n)
    ins = [s for b in top.bodies for s in (b.ready, b.runnable)]
    hw = HW(top, ins, [b.run for b in top.bodies], capture=(OneHotRoundRobin,))
    ((rr, loc),) = hw.rec.locals_of_class(OneHotRoundRobin)
    greg_s = loc["grant_reg"]
    run_ = [hw.b(b.run) for b in top.bodies]
    req = [z3.And(hw.b(b.ready), hw.b(b.runnable)) for b in top.bodies]
    g, v = hw.sig(rr.grant), hw.b(rr.valid)
    slot = {}
    for i in range(n):
        for k in range(n):
            s = z3.Solver()
            s.add(z3.Not(z3.Implies(run_[i], z3.And(bit(g, k), v))))
            s2 = z3.Solver()
            s2.add(run_[i])
            if s.check() == z3.unsat and s2.check() == z3.sat:
                slot.setdefault(i, k)
    if sorted(slot.values()) != list(range(n)):
        raise RuntimeError(f"could not locate the arbiter slots: {slot}")
    w = [hw.ghost(f"w_{i}", NW) for i in range(n)]
    for i in range(n):
        hw.set_ghost_next(w[i], z3.If(z3.And(req[i], z3.Not(run_[i])), w[i] + 1, N(0)))
    ctx.use(hw, xval_cycles=16)

    def idx_of(x):
        r = N(0)
        for i in range(n):
            r = z3.If(bit(x, i), N(i), r)
        return r

    def inv(nextstate):
        greg = hw.nxt(greg_s) if nextstate else hw.sig(greg_s)
        cs = [greg != 0, (greg & (greg - 1)) == 0]
        for i in range(n):
            wt = hw.gnext(w[i]) if nextstate else w[i]
            rank = nmod(N(slot[i]) + N(2 * n) - idx_of(greg) - 1, n)
            cs += [le(wt, n - 1), le(wt + rank, n - 1)]
        return z3.And(*cs)

    pre = [inv(False)]
    tag = f"rr_scheduler[n={n}]"
    if pid in ("C01", "C03"):
        # the function's share of C01 / C03 holds in every state (no invariant needed)
        if pid == "C03":
            ctx.prove(f"{tag}.run_implies_ready_and_runnable", z3.And(*[z3.Implies(run_[k], req[k]) for k in range(n)]), hw=hw)
        else:
            ctx.prove(f"{tag}.at_most_one_runs", at_most_one(run_), pre=pre, hw=hw)
            ctx.prove(f"{tag}.init.wf", hw.ts.at_init(inv(False)))
            ctx.prove(f"{tag}.step.wf", inv(True), pre=pre, hw=hw)
        ctx.cover(f"{tag}.all_request", z3.And(*pre, *req), hw=hw)
        return
    ctx.prove(f"{tag}.init.wf", hw.ts.at_init(inv(False)))
    ctx.prove(f"{tag}.step.wf", inv(True), pre=pre, hw=hw)
    ctx.prove(f"{tag}.run_implies_ready_and_runnable", z3.And(*[z3.Implies(run_[k], req[k]) for k in range(n)]), pre=pre, hw=hw)
    ctx.prove(f"{tag}.at_most_one_runs", at_most_one(run_), pre=pre, hw=hw)
    ctx.prove(f"{tag}.one_runs_when_some_request", z3.Implies(z3.Or(*req), z3.Or(*run_)), pre=pre, hw=hw)
    for i in range(n):
        ctx.prove(f"{tag}.t{i}.wait_bounded_by_component_size", le(w[i], n - 1), pre=pre, hw=hw)
    ctx.cover(f"{tag}.all_request", z3.And(*pre, *req), hw=hw)
    if n > 1:
        ctx.cover(f"{tag}.waited_max", z3.And(*pre, w[0] == n - 1), hw=hw)
