"""Function contract of transactron.core.schedulers.eager_deterministic_cc_scheduler, exhaustive in small conflict graphs.

The real function is called directly — outside any TransactionManager — on real `Body` objects (their
`ready`/`runnable` signals are free input ports, `run` is what the function drives), for EVERY labelled undirected
graph on n vertices (n <= 4 quick, n <= 5 thorough: 1 + 2 + 8 + 64 + 1024 graphs), once per connected component as
the manager does, and for several priority orders.  On the emitted module, for all input valuations:

  requires   gr symmetric and irreflexive, cc a connected component of gr, porder a bijection onto 0..n-1
  ensures    [C03]  run_k  =>  ready_k and runnable_k
             [C01]  edge(a, b)  =>  not (run_a and run_b)
             [C07]  ready_k and runnable_k and not run_k  =>  some neighbour j of k runs
             [C08]  ... and that neighbour has porder[j] < porder[k]   (a request is only ever blocked by a
                    neighbour that is earlier in the priority order; in particular for an edge (hi, lo) with
                    porder[hi] < porder[lo]: hi requesting and lo running => another neighbour of hi runs)

These are the scheduler's share of C01/C03/C07/C08; the manager's share (cgr = SpecConf, porder respects the
priorities, runnable = readiness of the call tree) is carried by the per-design obligations of corelib."""

import itertools
import random

import z3
from amaranth import Elaboratable, Module
from amaranth.lib.data import StructLayout

from engine.hw import HW


def all_graphs(n):
    pairs = list(itertools.combinations(range(n), 2))
    for mask in range(1 << len(pairs)):
        yield [p for i, p in enumerate(pairs) if mask >> i & 1]


def components(n, edges):
    adj = {i: set() for i in range(n)}
    for a, b in edges:
        adj[a].add(b)
        adj[b].add(a)
    seen, out = set(), []
    for i in range(n):
        if i in seen:
            continue
        comp, stack = set(), [i]
        while stack:
            u = stack.pop()
            if u in comp:
                continue
            comp.add(u)
            stack.extend(adj[u] - comp)
        seen |= comp
        out.append(comp)
    return adj, out


def orders(n, seed):
    ident = list(range(n))
    out = [ident, ident[::-1]]
    rng = random.Random(seed)
    p = ident[:]
    rng.shuffle(p)
    if p not in out:
        out.append(p)
    return out


def configs(tier):
    ns = [1, 2, 3, 4] if tier == "quick" else [1, 2, 3, 4, 5]
    out = []
    for n in ns:
        total = 1 << (n * (n - 1) // 2)
        chunk = 16 if n <= 4 else 32
        for lo in range(0, total, chunk):
            out.append({"kind": "schedfn", "n": n, "graphs": [lo, min(total, lo + chunk)]})
    return out


class _Top(Elaboratable):
    def __init__(self, n, edges, order):
        from transactron.core.body import Body

        self.bodies = [Body(name=f"t{i}", owner=None, i=StructLayout({}), o=StructLayout({}), src_loc=("schedfn", i)) for i in range(n)]
        self.n, self.edges, self.order = n, edges, order

    def elaborate(self, platform):
        import transactron.core.schedulers as S  # looked up at elaboration so that in-process canary patches are seen

        m = Module()
        adj, comps = components(self.n, self.edges)
        gr = {self.bodies[i]: {self.bodies[j] for j in adj[i]} for i in range(self.n)}
        porder = {self.bodies[i]: self.order[i] for i in range(self.n)}
        for ci, comp in enumerate(comps):
            cc = {self.bodies[i] for i in comp}
            m.submodules[f"sched{ci}"] = S.eager_deterministic_cc_scheduler(None, gr, cc, porder)
        return m


def run(pid, cfg, ctx):
    n = cfg["n"]
    lo, hi = cfg["graphs"]
    graphs = list(all_graphs(n))[lo:hi]
    first = True
    for gi, edges in enumerate(graphs, start=lo):
        for oi, order in enumerate(orders(n, 7919 * n + gi)):
            top = _Top(n, edges, order)
            ins = [s for b in top.bodies for s in (b.ready, b.runnable)]
            hw = HW(top, ins, [b.run for b in top.bodies], capture=())
            if first:
                ctx.use(hw, xval_cycles=4)
                first = False
            else:
                ctx.functions.update(hw.functions())
            run_ = [hw.b(b.run) for b in top.bodies]
            req = [z3.And(hw.b(b.ready), hw.b(b.runnable)) for b in top.bodies]
            adj, _ = components(n, edges)
            tag = f"g{gi}.o{oi}"
            if pid == "C03":
                ctx.prove(f"scheduler[{tag}].run_implies_ready_and_runnable", z3.And(*[z3.Implies(run_[k], req[k]) for k in range(n)]), hw=hw)
            elif pid == "C01":
                if edges:
                    ctx.prove(f"scheduler[{tag}].neighbours_never_both_run", z3.And(*[z3.Not(z3.And(run_[a], run_[b])) for a, b in edges]), hw=hw)
                else:
                    ctx.prove(f"scheduler[{tag}].isolated_vertices_run_when_requested", z3.And(*[run_[k] == req[k] for k in range(n)]), hw=hw)
            elif pid == "C07":
                ctx.prove(f"scheduler[{tag}].request_not_granted_implies_neighbour_runs",
                          z3.And(*[z3.Implies(z3.And(req[k], z3.Not(run_[k])), z3.Or(*[run_[j] for j in sorted(adj[k])]) if adj[k] else z3.BoolVal(False)) for k in range(n)]), hw=hw)
            elif pid == "C08":
                ctx.prove(f"scheduler[{tag}].blocked_only_by_earlier_neighbour",
                          z3.And(*[z3.Implies(z3.And(req[k], z3.Not(run_[k])),
                                              z3.Or(*[run_[j] for j in sorted(adj[k]) if order[j] < order[k]]) if any(order[j] < order[k] for j in adj[k]) else z3.BoolVal(False)) for k in range(n)]), hw=hw)
            else:
                raise ValueError(pid)
    if graphs and n >= 2:
        ctx.cover(f"scheduler[n={n}].all_request", z3.And(*req), hw=hw)
