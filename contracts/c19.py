"""C19 — Serializer and ArgumentsToResultsZipper keep requests and responses matched.

Serializer: Q = view of the inner BasicFifo of client ids (C14's wf/view).
  serialize_in[i] runs  => the server request runs with this argument and Q' = Q ++ [i];
  serialize_out[i] can run <=> Q != [] and head(Q) = i and the server response is ready; it returns the server's
  response and pops Q;  at most one in and one out per cycle;  req.run <=> some in runs; resp.run <=> some out runs.
  Matching lemma (ghost tracked request of an arbitrary client c): while tracked, Q[pos] = c; pos decreases by exactly
  one per response; at pos = 0 the next response is delivered by serialize_out[c] and by no other port.
ArgumentsToResultsZipper: Qa (BasicFifo depth 2), Qr (Forwarder). read.ready <=> Qa != [] and a result is available;
  result = (head Qa, head (Qr ++ [written result])); both heads are popped together; ghost counters show
  len(Qa) = #args written - #reads and len(Qr) = #results written - #reads."""

import z3
from transactron.lib.reqres import Serializer, ArgumentsToResultsZipper
from transactron.lib.fifo import BasicFifo
from transactron.lib.connectors import Forwarder
from transactron.lib.allocators import CircularAllocator
from transactron.lib.adapters import Adapter

from engine.th import TH
from spec.seq import N, NW, Seq, select, at_most_one
from spec.components import BasicFifoRep, ForwarderRep

PROPERTY = "C19"
HISTORY_LEMMAS = ['queue_kth', 'queue_prefix']  # lemmas/History.lean: one-cycle contracts => history-level statement (Lean 4)
LEVEL = "proof"
ASSUMPTIONS = [
    "Serializer: clear runs only when no request is pending and none is issued in the same cycle (the property is about request/response histories; a clear that drops a pending or concurrent request id necessarily orphans the server's response)",
    "the k-th pushed element of a FIFO queue is the k-th popped: Lean lemma Hist.queue_kth (machine-checked); with the machine-checked facts 'read pops both heads together' and the ghost counters this gives 'k-th argument paired with k-th result'",
    "(port_count, depth) swept as listed; unbounded in inputs and history length",
]


def configs(tier):
    out = []
    for pc in ((1, 2, 3) if tier == "quick" else (1, 2, 3, 4)):
        for d in ((1, 2, 3) if tier == "quick" else (1, 2, 3, 4, 5)):
            out.append({"kind": "serializer", "ports": pc, "depth": d})
    out.append({"kind": "zipper"})
    return out


def run(cfg, ctx):
    if cfg["kind"] == "zipper":
        return run_zipper(cfg, ctx)
    pc, depth = cfg["ports"], cfg["depth"]
    req = Adapter(i=[("d", 2)])
    resp = Adapter(o=[("r", 2)])
    dut = Serializer(port_count=pc, serialized_req_method=req.iface, serialized_resp_method=resp.iface, depth=depth)
    prov = {"clear": dut.clear}
    for i in range(pc):
        prov[f"in{i}"] = dut.serialize_in[i]
        prov[f"out{i}"] = dut.serialize_out[i]
    th = TH(dut, prov, required={"req": req, "resp": resp}, capture=(Serializer, BasicFifo, CircularAllocator))
    hw = th.hw
    try:
        fifo = th.locals_of(dut)["pending_requests"]
        rep = BasicFifoRep(hw, hw.rec, fifo)
    except (KeyError, AttributeError) as e:
        # the representation named by the contract is gone: fall back to the representation-independent bounded monitor
        ctx.notes.append(f"representation lookup failed ({e!r}); only the bounded interface monitor was run")
        ctx.use(hw)
        interface_monitor(ctx, th, hw, pc, depth, undecided_if_clean=True)
        return
    m = th.m
    ins = [m[f"in{i}"] for i in range(pc)]
    outs = [m[f"out{i}"] for i in range(pc)]
    clr = m["clear"]
    anyin = z3.Or(*[x.run for x in ins])
    anyout = z3.Or(*[x.run for x in outs])
    # ghost: tracked request
    track_now = hw.ghost_input("track") == 1
    g_tr, g_pos, g_cl = hw.ghost("tracked", 1), hw.ghost("pos", NW), hw.ghost("client", NW)
    Q0 = rep.view(False)
    begin = z3.And(g_tr == 0, track_now, anyin)
    who = N(0)
    for i in range(pc):
        who = z3.If(ins[i].run, N(i), who)
    popped = z3.And(g_tr == 1, anyout, g_pos == 0)
    hw.set_ghost_next(g_tr, z3.If(begin, z3.BitVecVal(1, 1), z3.If(popped, z3.BitVecVal(0, 1), g_tr)))
    hw.set_ghost_next(g_pos, z3.If(begin, Q0.n - N(anyout), z3.If(z3.And(g_tr == 1, anyout), g_pos - 1, g_pos)))
    hw.set_ghost_next(g_cl, z3.If(begin, who, g_cl))
    ctx.use(hw)
    Q1 = rep.view(True)
    idv = lambda t: N(t) if t is not None else N(0)

    def ginv(nxt):
        tr = hw.gnext(g_tr) if nxt else g_tr
        pos = hw.gnext(g_pos) if nxt else g_pos
        cl = hw.gnext(g_cl) if nxt else g_cl
        Q = rep.view(nxt)
        at = idv(select(Q.e, pos)) if Q.e[0] is not None else N(0)
        return z3.Implies(tr == 1, z3.And(z3.ULT(pos, Q.n), at == cl, z3.ULT(cl, N(pc))))

    # the property speaks about request/response histories; clear is only allowed when nothing is pending or being issued
    A = [z3.Implies(clr.run, z3.And(Q0.n == 0, z3.Not(anyin)))]
    pre = [rep.wf(False), ginv(False)]
    P = lambda name, post: ctx.prove(name, post, pre=pre, assume=A, hw=hw)
    ctx.prove("init.wf", hw.ts.at_init(z3.And(rep.wf(False), Q0.n == 0, ginv(False))))
    P("step.wf", rep.wf(True))
    P("ghost.step.inv", ginv(True))
    P("at_most_one_request_and_one_response_per_cycle", z3.And(at_most_one([x.run for x in ins]), at_most_one([x.run for x in outs])))
    P("server_request_runs_iff_some_client_requests", m["req"].run == anyin)
    P("server_response_runs_iff_some_client_receives", m["resp"].run == anyout)
    head = idv(Q0.e[0])
    for i in range(pc):
        others_in = z3.Or(*[ins[j].en for j in range(pc) if j != i]) if pc > 1 else z3.BoolVal(False)
        P(f"in{i}.accepted_iff_room_and_server_ready", z3.Implies(z3.And(ins[i].en, z3.Not(others_in)), ins[i].done == z3.And(Q0.n != depth, m["req"].en)))
        P(f"in{i}.forwards_argument_to_server", z3.Implies(ins[i].run, m["req"].arg("d") == ins[i].arg("d")))
        others_out = z3.Or(*[outs[j].en for j in range(pc) if j != i]) if pc > 1 else z3.BoolVal(False)
        P(f"out{i}.can_run_iff_oldest_pending_is_own_and_server_ready", z3.Implies(outs[i].en, outs[i].done == z3.And(Q0.n != 0, head == i, m["resp"].en)))
        P(f"out{i}.returns_server_response", z3.Implies(outs[i].run, outs[i].res("r") == m["resp"].res("r")))
        P(f"in{i}.run_iff_done", ins[i].run == ins[i].done)
        P(f"out{i}.run_iff_done", outs[i].run == outs[i].done)
    idw = Q0.e[0].size() if Q0.e[0] is not None else 0
    newid = z3.Extract(idw - 1, 0, who) if idw else None
    if idw:
        exp = Q0.drop(N(anyout)).append1(newid, anyin)
        P("step.view", Q1.eq(Seq.ite(clr.run, Seq(N(0), Q0.e), exp)))
    else:
        P("step.view", Q1.n == z3.If(clr.run, N(0), Q0.n - N(anyout) + N(anyin)))
    # matching: the tracked request (client c, `pos` requests ahead of it) is answered by out[c] when pos reaches 0
    fs = [z3.Implies(z3.And(g_tr == 1, g_pos == 0, outs[i].run), g_cl == i) for i in range(pc)]
    P("tracked_request.answered_only_by_its_own_port", z3.And(*fs))
    P("tracked_request.position_decreases_once_per_response", z3.Implies(z3.And(g_tr == 1, z3.Not(popped)), hw.gnext(g_pos) == g_pos - N(anyout)))
    if ctx.tier != "quick" or (pc, depth) in ((2, 2), (3, 1)):
        interface_monitor(ctx, th, hw, pc, depth)
    ctx.cover("tracked_answered", z3.And(*pre, *A, popped), hw=hw)
    if depth > 1:
        ctx.cover("in+out", z3.And(*pre, *A, anyin, anyout), hw=hw)


def interface_monitor(ctx, th, hw, pc, depth, undecided_if_clean=False):
    """Ghost specification state: the queue of pending client ids, updated only from the method interface (which calls
    ran). Searched from reset for an input sequence after which a response is delivered to a client that is not the
    oldest pending one, a deliverable response is refused, a request is accepted without room, or refused with room."""
    m = th.m
    ins = [m[f"in{i}"] for i in range(pc)]
    outs = [m[f"out{i}"] for i in range(pc)]
    clr = m["clear"]
    idw = max(1, (pc - 1).bit_length())
    qn = hw.ghost("mon_len", NW)
    qe = [hw.ghost(f"mon_e{j}", idw) for j in range(depth)]
    anyin = z3.Or(*[x.done for x in ins])
    anyout = z3.Or(*[x.done for x in outs])
    who = z3.BitVecVal(0, idw)
    for i in range(pc):
        who = z3.If(ins[i].done, z3.BitVecVal(i, idw), who)
    Q = Seq(qn, qe)
    nxt = Q.drop(N(anyout)).append1(who, anyin)
    hw.set_ghost_next(qn, z3.If(clr.done, N(0), nxt.n))
    for j in range(depth):
        hw.set_ghost_next(qe[j], nxt.e[j])
    A = z3.Implies(clr.done, z3.And(qn == 0, z3.Not(anyin)))
    head = N(qe[0])
    bad = []
    for i in range(pc):
        bad.append(z3.And(outs[i].done, z3.Or(qn == 0, head != i)))
        only_out = z3.And(*[z3.Not(outs[j].en) for j in range(pc) if j != i]) if pc > 1 else z3.BoolVal(True)
        bad.append(z3.And(outs[i].en, only_out, m["resp"].en, qn != 0, head == i, z3.Not(outs[i].done)))
        only_in = z3.And(*[z3.Not(ins[j].en) for j in range(pc) if j != i]) if pc > 1 else z3.BoolVal(True)
        bad.append(z3.And(ins[i].done, qn == depth))
        bad.append(z3.And(ins[i].en, only_in, m["req"].en, qn != depth, z3.Not(ins[i].done)))
        bad.append(z3.And(outs[i].done, outs[i].res("r") != m["resp"].res("r")))
    ctx.bmc("interface_monitor.responses_matched_with_requests", hw, z3.Or(*bad), assume=A, undecided_if_clean=undecided_if_clean)


def zipper_interface_monitor(ctx, th, hw):
    m = th.m
    wa, wr, rd = m["write_args"], m["write_results"], m["read"]
    CAP = 3
    na, nr = hw.ghost("mon_na", NW), hw.ghost("mon_nr", NW)
    ga = [hw.ghost(f"mon_a{i}", 2) for i in range(CAP)]
    gr = [hw.ghost(f"mon_r{i}", 2) for i in range(CAP)]
    pop = rd.run
    # a result that arrives while none is pending and read runs is forwarded, not queued
    fwd = z3.And(pop, nr == 0, wr.run)
    na1 = na + N(wa.run) - N(pop)
    nr1 = nr + N(z3.And(wr.run, z3.Not(fwd))) - N(z3.And(pop, z3.Not(fwd)))
    hw.set_ghost_next(na, na1)
    hw.set_ghost_next(nr, nr1)
    for i in range(CAP):
        sh_a = z3.If(pop, ga[i + 1] if i + 1 < CAP else ga[i], ga[i])
        idx_a = na - N(pop)
        hw.set_ghost_next(ga[i], z3.If(z3.And(wa.run, idx_a == i), wa.arg("a"), sh_a))
        popr = z3.And(pop, z3.Not(fwd))
        sh_r = z3.If(popr, gr[i + 1] if i + 1 < CAP else gr[i], gr[i])
        idx_r = nr - N(popr)
        hw.set_ghost_next(gr[i], z3.If(z3.And(wr.run, z3.Not(fwd), idx_r == i), wr.arg("r"), sh_r))
    ctx.use(hw)
    exp_res = z3.If(nr != 0, gr[0], wr.arg("r"))
    bad = [z3.And(rd.run, z3.Or(na == 0, z3.And(nr == 0, z3.Not(wr.run)))),                      # read without an argument / a result
           z3.And(rd.run, na != 0, z3.Or(rd.res("args") != ga[0], rd.res("results") != exp_res)),  # k-th argument with k-th result
           z3.And(rd.en, z3.Not(rd.done), na != 0, nr != 0)]                                       # a pending pair is never lost
    A = [z3.Implies(wa.run, z3.ULT(na, N(CAP))), z3.Implies(wr.run, z3.ULT(nr, N(CAP)))]
    ctx.bmc("interface_monitor.kth_argument_paired_with_kth_result", hw, z3.Or(*bad), assume=z3.And(*A), undecided_if_clean=True)


def run_zipper(cfg, ctx):
    dut = ArgumentsToResultsZipper([("a", 2)], [("r", 2)])
    th = TH(dut, {"write_args": dut.write_args, "write_results": dut.write_results, "read": dut.read, "peek_arg": dut.peek_arg},
            capture=(ArgumentsToResultsZipper, BasicFifo, CircularAllocator, Forwarder))
    hw = th.hw
    loc = th.locals_of(dut)
    try:
        qa = BasicFifoRep(hw, hw.rec, loc["fifo"])
        qr = ForwarderRep(hw, hw.rec, loc["forwarder"])
    except KeyError:
        # the representation this contract names (inner BasicFifo + Forwarder) is gone: representation-independent bounded
        # search from reset against ghost queues of arguments and results; a trace is a violation, none is *undecided*
        return zipper_interface_monitor(ctx, th, hw)
    m = th.m
    wa, wr, rd, pk = m["write_args"], m["write_results"], m["read"], m["peek_arg"]
    g_wa, g_wr, g_rd = hw.ghost("n_args", NW), hw.ghost("n_results", NW), hw.ghost("n_reads", NW)
    hw.set_ghost_next(g_wa, g_wa + N(wa.run))
    hw.set_ghost_next(g_wr, g_wr + N(wr.run))
    hw.set_ghost_next(g_rd, g_rd + N(rd.run))
    ctx.use(hw)
    A0, A1 = qa.view(False), qa.view(True)
    R0, R1 = qr.view(False), qr.view(True)

    def ginv(nxt):
        a, r = qa.view(nxt), qr.view(nxt)
        g = hw.gnext if nxt else (lambda v: v)
        return z3.And(a.n == g(g_wa) - g(g_rd), r.n == g(g_wr) - g(g_rd))

    pre = [qa.wf(False), ginv(False)]
    P = lambda name, post: ctx.prove(name, post, pre=pre, hw=hw)
    ctx.prove("init.wf", hw.ts.at_init(z3.And(qa.wf(False), ginv(False), A0.n == 0, R0.n == 0)))
    P("step.wf", qa.wf(True))
    P("ghost.step.counters", ginv(True))
    res_avail = z3.Or(R0.n == 1, wr.run)
    P("read.ready_iff_argument_and_result_available", z3.Implies(rd.en, rd.done == z3.And(A0.n != 0, res_avail)))
    P("write_args.ready_iff_room", z3.Implies(wa.en, wa.done == (A0.n != 2)))
    P("write_results.ready_iff_buffer_empty", z3.Implies(wr.en, wr.done == (R0.n == 0)))
    P("peek_arg", z3.And(z3.Implies(pk.en, pk.done == (A0.n != 0)), z3.Implies(pk.run, pk.res("a") == A0[0])))
    exp_res = z3.If(R0.n == 1, R0[0], wr.arg("r"))
    P("read.result_pairs_oldest_argument_with_oldest_result", z3.Implies(rd.run, z3.And(hw.sig(rd.adapter.data_out.args.a) == hw.sig(A0[0]) if False else rd.res("args") == A0[0], rd.res("results") == exp_res)))
    P("step.args_queue", A1.eq(A0.drop(N(rd.run)).append1(wa.arg(), wa.run)))
    expR = Seq(R0.n, [R0.e[0], R0.e[0]]).append1(wr.arg(), wr.run).drop(N(rd.run))
    P("step.results_queue", z3.And(R1.n == expR.n, z3.ULE(expR.n, N(1)), z3.Implies(expR.n == 1, R1.e[0] == expR.e[0])))
    ctx.cover("read+both_writes", z3.And(*pre, rd.run, wa.run, wr.run), hw=hw)


def _patch_ready():
    import transactron.lib.reqres as RR
    import inspect, textwrap

    src = textwrap.dedent(inspect.getsource(RR.Serializer.elaborate))
    old = "ready=(pending_requests.head.id == i)"
    assert old in src
    src = src.replace(old, "ready=(pending_requests.head.id == i) | (pending_requests.level == self.depth)")
    ns = dict(RR.__dict__)
    exec(src, ns)
    RR.Serializer.elaborate = ns["elaborate"]


def _patch_zipper():
    import transactron.lib.reqres as RR
    import inspect, textwrap

    src = textwrap.dedent(inspect.getsource(RR.ArgumentsToResultsZipper.elaborate))
    old = "args = fifo.read(m)"
    assert old in src
    src = src.replace(old, "args = fifo.peek(m)\n        with m.If(forwarder.read.run & ~self.write_results.run):\n            fifo.read(m)")
    ns = dict(RR.__dict__)
    exec(src, ns)
    RR.ArgumentsToResultsZipper.elaborate = ns["elaborate"]


CANARIES = [
    {"name": "any_client_may_take_response_when_queue_full", "cfg": {"kind": "serializer", "ports": 2, "depth": 2}, "patch": _patch_ready, "expect": r"out\d\.can_run|tracked_request|ghost"},
    {"name": "argument_not_popped_on_forwarded_result", "cfg": {"kind": "zipper"}, "patch": _patch_zipper, "expect": r"step\.args_queue|ghost", "error_ok": True},
]
