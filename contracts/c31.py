"""C31 — hardware counters and histograms count exactly.

HwCounter(ways, width): count' = count + #{k | incr[k] runs}  (mod 2^width).
TaggedCounter for every documented tag set (range from 0, range with a>0, negative range, IntEnum dense / sparse /
one-hot dense / one-hot sparse, lists unsorted / negative / one-hot sparse): elaboration succeeds and
counter_t' = counter_t + #{k | incr[k] runs with tag_k = t}.
HwExpHistogram(bucket_count, sample_width, ways): count, sum (mod 2^w), min, max follow the running samples;
bucket 0 counts samples = 0, bucket i counts 2^(i-1) <= s < 2^i, the last bucket s >= 2^(n-2); every running
sample increments exactly one bucket.
Metrics disabled: constructing, calling incr/add and elaborating works, no register or method of the metric
reaches the netlist, and the metric is not registered."""

import enum

import z3
from amaranth import Elaboratable, Signal
from transactron import TModule, Transaction
from transactron.lib.metrics import HwCounter, TaggedCounter, HwExpHistogram, HwMetricsEnabledKey, HwMetricsListKey
from transactron.utils.dependencies import DependencyContext, DependencyManager

from engine.th import TH
from spec.seq import N, NW

PROPERTY = "C31"
HISTORY_LEMMAS = ['modcounter_history']  # lemmas/History.lean: one-cycle contracts => history-level statement (Lean 4)
LEVEL = "proof"
ASSUMPTIONS = [
    "TaggedCounter: a running incr passes one of the declared tag values (the tag argument's shape admits other bit patterns, e.g. gaps of a sparse enum; they are outside the documented domain)",
    "(ways, widths, tag sets, bucket counts, sample widths) swept as listed; unbounded in inputs and history length",
]


class Dense(enum.IntEnum):
    A = 0
    B = 1
    C = 2


class Sparse(enum.IntEnum):
    A = 1
    B = 5
    C = 6


class OneHotDense(enum.IntEnum):
    A = 1
    B = 2
    C = 4


class OneHotSparse(enum.IntEnum):
    A = 1
    C = 4


class OneHotHigh(enum.IntEnum):
    B = 2
    D = 8


TAGSETS = {
    "range(0,3)": range(0, 3),
    "range(2,5)": range(2, 5),
    "range(2,3)": range(2, 3),
    "range(-2,2)": range(-2, 2),
    "enum_dense": Dense,
    "enum_sparse": Sparse,
    "enum_onehot_dense": OneHotDense,
    "enum_onehot_sparse": OneHotSparse,
    "enum_onehot_high": OneHotHigh,
    "list_unsorted": [3, 0, 5],
    "list_negative": [-3, 1, -1],
    "list_onehot_sparse": [1, 4],
    "list_onehot_high": [2, 8],
    "list_onehot_dense_unsorted": [4, 1, 2],
    "list_single": [2],
}


def configs(tier):
    out = []
    for ways in (1, 2, 3, 4):
        for width in ((2, 3) if tier == "quick" else (2, 3, 5, 8)):
            out.append({"kind": "counter", "ways": ways, "width": width})
    for name in TAGSETS:
        for ways in ((1, 2) if tier == "quick" else (1, 2, 3)):
            out.append({"kind": "tagged", "tags": name, "ways": ways, "width": 3})
    for bc in range(1, 7):
        for sw in ((2, 4) if tier == "quick" else (2, 3, 4, 6)):
            for ways in ((1, 2) if tier == "quick" else (1, 2, 3)):
                out.append({"kind": "histogram", "bucket_count": bc, "sample_width": sw, "ways": ways, "width": 4})
    # registers wide enough that nothing is hidden by the modulus, with a number of ways that is not a power of two
    for bc, sw, ways, width in ([(3, 3, 3, 8), (2, 2, 3, 6)] if tier == "quick" else [(3, 3, 3, 8), (2, 2, 3, 6), (4, 4, 3, 10), (3, 2, 5, 8), (2, 3, 4, 8)]):
        out.append({"kind": "histogram", "bucket_count": bc, "sample_width": sw, "ways": ways, "width": width})
    for ways, width in ([(3, 5)] if tier == "quick" else [(3, 5), (5, 6)]):
        out.append({"kind": "counter", "ways": ways, "width": width})
        out.append({"kind": "tagged", "tags": "list_single", "ways": ways, "width": width})
    for kind in ("counter", "tagged", "histogram"):
        out.append({"kind": "disabled", "metric": kind})
    return out


def tag_values(tags):
    if isinstance(tags, (range, list)):
        return list(tags)
    return [t.value for t in tags]


def run(cfg, ctx):
    if cfg["kind"] == "disabled":
        return run_disabled(cfg, ctx)
    dm = DependencyManager()
    dm.add_dependency(HwMetricsEnabledKey(), True)
    with DependencyContext(dm):
        if cfg["kind"] == "counter":
            dut = HwCounter("m.counter", width_bits=cfg["width"], ways=cfg["ways"])
            methods = {f"incr{k}": dut.incr[k] for k in range(cfg["ways"])}
        elif cfg["kind"] == "tagged":
            dut = TaggedCounter("m.tagged", tags=TAGSETS[cfg["tags"]], registers_width=cfg["width"], ways=cfg["ways"])
            methods = {f"incr{k}": dut.incr[k] for k in range(cfg["ways"])}
        else:
            dut = HwExpHistogram("m.hist", bucket_count=cfg["bucket_count"], sample_width=cfg["sample_width"], registers_width=cfg["width"], ways=cfg["ways"])
            methods = {f"add{k}": dut.add[k] for k in range(cfg["ways"])}
        try:
            th = TH(dut, methods, dependency_manager=dm)
        except Exception as e:  # noqa: BLE001
            if cfg["kind"] != "tagged":
                raise
            # a documented tag set must elaborate
            ctx.structural("tagged.elaborates_for_documented_tag_set", False, "elaboration", detail=f"{type(e).__name__}: {e}")
            return
    if cfg["kind"] == "tagged":
        ctx.structural("tagged.elaborates_for_documented_tag_set", True, "elaboration")
    hw = ctx.use(th.hw)
    m = th.m
    W = cfg["width"]
    mod = lambda x: z3.Extract(W - 1, 0, x)
    for k, io in m.items():
        ctx.prove(f"{k}.always_ready", z3.Implies(io.en, io.done), hw=hw)
        ctx.prove(f"{k}.run_iff_done", io.run == io.done, hw=hw)
    if cfg["kind"] == "counter":
        cnt, cnt_n = hw.sig(dut.count.value), hw.nxt(dut.count.value)
        inc = N(0)
        for io in m.values():
            inc = inc + N(io.run)
        ctx.prove("count.step", cnt_n == mod(N(cnt) + inc), hw=hw)
        ctx.prove("count.init_zero", hw.ts.at_init(cnt == 0))
        ctx.cover("all_ways", z3.And(*[io.run for io in m.values()]), hw=hw)
    elif cfg["kind"] == "tagged":
        vals = tag_values(TAGSETS[cfg["tags"]])
        tags = [io.arg("tag") for io in m.values()]
        tw = tags[0].size()
        tagc = lambda v: z3.BitVecVal(v & ((1 << tw) - 1), tw)
        A = [z3.Implies(io.run, z3.Or(*[t == tagc(v) for v in vals])) for io, t in zip(m.values(), tags)]
        if set(dut.counters.keys()) != set(vals):
            raise RuntimeError("counter registers do not match the tag set")
        for v in vals:
            reg = dut.counters[v].value
            inc = N(0)
            for io, t in zip(m.values(), tags):
                inc = inc + N(z3.And(io.run, t == tagc(v)))
            ctx.prove(f"counter[{v}].step", hw.nxt(reg) == mod(N(hw.sig(reg)) + inc), assume=A, hw=hw)
            ctx.prove(f"counter[{v}].init_zero", hw.ts.at_init(hw.sig(reg) == 0))
        ctx.cover("declared_tag", z3.And(*A, list(m.values())[0].run), hw=hw)
    else:
        SW, BC = cfg["sample_width"], cfg["bucket_count"]
        samples = [io.arg("sample") for io in m.values()]
        runs = [io.run for io in m.values()]
        cnt = N(0)
        ssum = N(hw.sig(dut.sum.value))
        mn = hw.sig(dut.min.value)
        mx = hw.sig(dut.max.value)
        for r, s in zip(runs, samples):
            cnt = cnt + N(r)
            ssum = ssum + z3.If(r, N(s), N(0))
            mn = z3.If(z3.And(r, z3.ULT(s, mn)), s, mn)
            mx = z3.If(z3.And(r, z3.UGT(s, mx)), s, mx)
        ctx.prove("count.step", hw.nxt(dut.count.value) == mod(N(hw.sig(dut.count.value)) + cnt), hw=hw)
        ctx.prove("sum.step", hw.nxt(dut.sum.value) == mod(ssum), hw=hw)
        ctx.prove("min.step", hw.nxt(dut.min.value) == mn, hw=hw)
        ctx.prove("max.step", hw.nxt(dut.max.value) == mx, hw=hw)
        ctx.prove("init", hw.ts.at_init(z3.And(hw.sig(dut.count.value) == 0, hw.sig(dut.sum.value) == 0, hw.sig(dut.max.value) == 0, hw.sig(dut.min.value) == (1 << SW) - 1)))

        def in_bucket(i, s):
            s = N(s)
            if BC == 1:
                return z3.BoolVal(True)
            if i == 0:
                return s == 0
            lo = N(1 << (i - 1))
            if i == BC - 1:
                return z3.UGE(s, lo)
            return z3.And(z3.UGE(s, lo), z3.ULT(s, N(1 << i)))

        for i, b in enumerate(dut.buckets):
            inc = N(0)
            for r, s in zip(runs, samples):
                inc = inc + N(z3.And(r, in_bucket(i, s)))
            ctx.prove(f"bucket[{i}].step", hw.nxt(b.value) == mod(N(hw.sig(b.value)) + inc), hw=hw)
        # spec sanity: the bucket ranges partition the sample space (every sample falls into exactly one bucket)
        s0 = z3.BitVec("any_sample", SW)
        ctx.prove("spec.buckets_partition_samples", sum((N(in_bucket(i, s0)) for i in range(BC)), N(0)) == 1)
        ctx.cover("all_ways", z3.And(*runs), hw=hw)


class _Caller(Elaboratable):
    """calls incr/add of a metric created with metrics disabled"""

    def __init__(self, kind):
        self.kind = kind
        self.w = Signal(name="w_called")

    def elaborate(self, platform):
        m = TModule()
        k = self.kind
        if k == "counter":
            self.metric = HwCounter("m.counter", ways=2)
        elif k == "tagged":
            self.metric = TaggedCounter("m.tagged", tags=OneHotSparse, ways=2)
        else:
            self.metric = HwExpHistogram("m.hist", bucket_count=3, sample_width=3, ways=2)
        m.submodules.metric = self.metric
        with Transaction().body(m):
            m.d.comb += self.w.eq(1)
            if k == "counter":
                self.metric.incr[0](m)
                self.metric.incr[1](m)
            elif k == "tagged":
                self.metric.incr[0](m, tag=OneHotSparse.C)
            else:
                self.metric.add[1](m, sample=5)
        return m


def run_disabled(cfg, ctx):
    from engine.hw import HW, Recorder
    from amaranth.hdl._ir import Fragment
    from amaranth.hdl import _nir
    from transactron.core.context import TransactronContextElaboratable

    top_inner = _Caller(cfg["metric"])
    top = TransactronContextElaboratable(top_inner)  # metrics are disabled by default
    rec = Recorder(())
    with rec:
        frag = Fragment.get(top, None)
    hw = HW(frag, [], [top_inner.w])
    hw.rec = rec
    ctx.use(hw, xval_cycles=4)
    metric = top_inner.metric
    regs_in_netlist = [name for name, s in metric.signals.items() if hw.ts.has(s)]
    n_state = len(hw.ts.state)
    ctx.prove("disabled.calls_accepted_caller_runs", hw.b(top_inner.w), hw=hw)
    ctx.structural("disabled.no_metric_register_in_netlist", not regs_in_netlist and n_state == 0, "netlist inspection", detail=f"metric registers present: {regs_in_netlist}; state elements: {n_state}")
    try:
        registered = top.manager.get_dependency(HwMetricsListKey())
    except KeyError:
        registered = []
    ctx.structural("disabled.metric_not_registered", len(registered) == 0, "dependency manager inspection", detail=f"{len(registered)} metrics registered")
    nmeth = len([mm for mm in top.transaction_manager.methods])
    ctx.structural("disabled.no_method_defined", nmeth == 0, "transaction manager inspection", detail=f"{nmeth} methods defined")


def _patch_hist_last_bucket():
    import transactron.lib.metrics as MT
    import inspect, textwrap

    src = textwrap.dedent(inspect.getsource(MT.HwExpHistogram.elaborate))
    old = "should_incr = (bucket_idx >= i - 1) & (sample != 0)"
    assert old in src
    src = src.replace(old, "should_incr = (bucket_idx >= i) & (sample != 0)")
    ns = dict(MT.__dict__)
    exec(src, ns)
    MT.HwExpHistogram.elaborate = ns["elaborate"]


def _patch_counter_ways():
    import transactron.lib.metrics as MT
    import inspect, textwrap

    src = textwrap.dedent(inspect.getsource(MT.HwCounter.elaborate))
    old = "popcount(Cat(method.run for method in self.incr))"
    assert old in src
    src = src.replace(old, "Cat(method.run for method in self.incr).any()")
    ns = dict(MT.__dict__)
    exec(src, ns)
    MT.HwCounter.elaborate = ns["elaborate"]


CANARIES = [
    {"name": "last_bucket_misses_its_first_octave", "cfg": {"kind": "histogram", "bucket_count": 3, "sample_width": 4, "ways": 1, "width": 4}, "patch": _patch_hist_last_bucket, "expect": r"bucket\[2\]"},
    {"name": "simultaneous_increments_counted_once", "cfg": {"kind": "counter", "ways": 3, "width": 3}, "patch": _patch_counter_ways, "expect": r"count\.step"},
]
