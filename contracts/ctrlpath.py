"""Function contracts (E-PY) for the control-path primitives that decide whether two call sites can be active together:

  transactron.core.tmodule.CtrlPath.is_prefix / is_proper_prefix / exclusive_with
  transactron.core.manager.call_paths_exclusive
  transactron.utils.transactron_helpers.longest_common_prefix

The real function objects are executed on real CtrlPath / PathEdge dataclass instances whose integer fields (module,
alt, par) are symbolic (engine/pysym.py); path lengths are concrete and swept.  Per feasible execution path one
verification condition `path condition => result == spec` is discharged by z3, plus `the path conditions cover
everything`.  The specifications are written from the docstrings / the property text:

  is_prefix(p, q)        <=>  same module and len(p) <= len(q) and p[i] == q[i] for all i < len(p)
  is_proper_prefix(p, q) <=>  is_prefix(p, q) and p != q
  exclusive_with(p, q)   <=>  same module and there is a first index d < min(len p, len q) with p[d] != q[d], and
                              p[d].par == q[d].par (the same control structure, hence a different alternative of it)
  call_paths_exclusive(P, Q): with c the length of the longest common prefix of the two call paths, false if one call
                              path is a prefix of the other, else exclusive_with(P[c], Q[c])
"""

import itertools

import z3

from engine import pysym
from engine.pysym import sint, SBool


def configs(tier):
    L = 3 if tier == "quick" else 4
    out = []
    for l1 in range(L + 1):
        for l2 in range(L + 1):
            out.append({"kind": "ctrlpath", "fn": "ctrlpath", "len": [l1, l2]})
    inner = (0, 1, 2)
    for n1, n2 in itertools.product((1, 2) if tier == "quick" else (0, 1, 2, 3), repeat=2):
        out.append({"kind": "ctrlpath", "fn": "call_paths", "len": [n1, n2], "inner": list(inner)})
    return out


def mk_path(tag, n):
    from transactron.core.tmodule import CtrlPath, PathEdge

    return CtrlPath(sint(f"{tag}_module"), tuple(PathEdge(sint(f"{tag}_alt{i}"), sint(f"{tag}_par{i}")) for i in range(n)))


def edge_eq(a, b):
    return z3.And(a.alt.e == b.alt.e, a.par.e == b.par.e)


def spec_is_prefix(p, q):
    if len(p.path) > len(q.path):
        return z3.BoolVal(False)
    return z3.And(p.module.e == q.module.e, *[edge_eq(a, b) for a, b in zip(p.path, q.path)])


def spec_path_eq(p, q):
    if len(p.path) != len(q.path):
        return z3.BoolVal(False)
    return z3.And(p.module.e == q.module.e, *[edge_eq(a, b) for a, b in zip(p.path, q.path)])


def spec_exclusive(p, q):
    alts = []
    for d in range(min(len(p.path), len(q.path))):
        before = [edge_eq(p.path[i], q.path[i]) for i in range(d)]
        alts.append(z3.And(*before, z3.Not(edge_eq(p.path[d], q.path[d])), p.path[d].par.e == q.path[d].par.e))
    return z3.And(p.module.e == q.module.e, z3.Or(*alts)) if alts else z3.BoolVal(False)


def as_term(res):
    if isinstance(res, SBool):
        return res.e
    if isinstance(res, bool):
        return z3.BoolVal(res)
    raise pysym.Unsupported(f"unexpected result {res!r}")


def check_bool_fn(ctx, name, fn, spec, native=None):
    paths = pysym.explore(fn)
    pcs = []
    for k, p in enumerate(paths):
        pc = z3.And(*p["pc"]) if p["pc"] else z3.BoolVal(True)
        pcs.append(pc)
        kind, res = p["result"]
        if kind != "ok":
            ctx.prove(f"{name}.path{k}.does_not_raise", z3.BoolVal(False), pre=[pc], note=repr(res))
            continue
        ok = ctx.prove(f"{name}.path{k}.result_equals_spec", as_term(res) == spec, pre=[pc])
        if not ok and native is not None:
            s = z3.Solver()
            s.add(pc, as_term(res) != spec)
            if s.check() == z3.sat:
                ctx.records[-1]["native_replay"] = native(s.model())
    ctx.prove(f"{name}.paths_cover_all_inputs", z3.Or(*pcs) if pcs else z3.BoolVal(False))
    return len(paths)


def concretize(model, p):
    from transactron.core.tmodule import CtrlPath, PathEdge

    v = lambda s: model.eval(s.e, model_completion=True).as_signed_long()
    return CtrlPath(v(p.module), tuple(PathEdge(v(e.alt), v(e.par)) for e in p.path))


def run(pid, cfg, ctx):
    import transactron.core.tmodule as TM
    import transactron.core.manager as MG
    from transactron.utils import transactron_helpers as TH

    if cfg["fn"] == "ctrlpath":
        l1, l2 = cfg["len"]
        p, q = mk_path("p", l1), mk_path("q", l2)
        tag = f"[{l1},{l2}]"

        def nat(fname):
            def f(model):
                cp, cq = concretize(model, p), concretize(model, q)
                return {"p": repr(cp), "q": repr(cq), "returned": bool(getattr(cp, fname)(cq))}

            return f

        n = 0
        n += check_bool_fn(ctx, f"CtrlPath.exclusive_with{tag}", lambda: p.exclusive_with(q), spec_exclusive(p, q), nat("exclusive_with"))
        n += check_bool_fn(ctx, f"CtrlPath.is_prefix{tag}", lambda: p.is_prefix(q), spec_is_prefix(p, q), nat("is_prefix"))
        n += check_bool_fn(ctx, f"CtrlPath.is_proper_prefix{tag}", lambda: p.is_proper_prefix(q), z3.And(spec_is_prefix(p, q), z3.Not(spec_path_eq(p, q))), nat("is_proper_prefix"))
        # symmetry of exclusivity is what makes the conflict graph symmetric
        ctx.prove(f"spec.exclusive_with_is_symmetric{tag}", spec_exclusive(p, q) == spec_exclusive(q, p))
        if l1 and l2:
            ctx.cover(f"exclusive_paths_exist{tag}", spec_exclusive(p, q))
        ctx.functions.update({("transactron.core.tmodule.CtrlPath.exclusive_with", "transactron/core/tmodule.py"), ("transactron.core.tmodule.CtrlPath.is_prefix", "transactron/core/tmodule.py"),
                              ("transactron.core.tmodule.CtrlPath.is_proper_prefix", "transactron/core/tmodule.py")})
        ctx.notes.append(f"ctrlpath{tag}: {n} feasible execution paths")
    else:
        n1, n2 = cfg["len"]
        total = 0
        for inner in itertools.product(cfg["inner"], repeat=n1 + n2):
            P = tuple(mk_path(f"P{i}", inner[i]) for i in range(n1))
            Q = tuple(mk_path(f"Q{i}", inner[n1 + i]) for i in range(n2))
            tag = f"[{','.join(map(str, inner[:n1]))}|{','.join(map(str, inner[n1:]))}]"
            alts = []
            for c in range(min(n1, n2)):
                before = [spec_path_eq(P[i], Q[i]) for i in range(c)]
                alts.append(z3.And(*before, z3.Not(spec_path_eq(P[c], Q[c])), spec_exclusive(P[c], Q[c])))
            spec = z3.Or(*alts) if alts else z3.BoolVal(False)

            def nat(model, P=P, Q=Q):
                cP, cQ = tuple(concretize(model, x) for x in P), tuple(concretize(model, x) for x in Q)
                return {"path1": repr(cP), "path2": repr(cQ), "returned": bool(MG.call_paths_exclusive(cP, cQ))}

            total += check_bool_fn(ctx, f"call_paths_exclusive{tag}", lambda: MG.call_paths_exclusive(P, Q), spec, nat)
        ctx.functions.update({("transactron.core.manager.call_paths_exclusive", "transactron/core/manager.py"), ("transactron.utils.transactron_helpers.longest_common_prefix", "transactron/utils/transactron_helpers.py"),
                              ("transactron.core.tmodule.CtrlPath.exclusive_with", "transactron/core/tmodule.py")})
        ctx.notes.append(f"call_paths[{n1},{n2}]: {total} feasible execution paths")
