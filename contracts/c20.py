"""C20 — Semaphore counts acquisitions.

view = count; wf: count <= max; acquire.ready <=> count < max; release.ready <=> count > 0;
count' = clear ? 0 : count + acquire.run - release.run (the per-step contract; the history-level statement
"count = acquisitions - releases since the last clear" follows by induction on the history)."""

import z3
from transactron.lib.fifo import Semaphore

from engine.th import TH
from spec.seq import N, le

PROPERTY = "C20"
HISTORY_LEMMAS = ['counter_history']  # lemmas/History.lean: one-cycle contracts => history-level statement (Lean 4)
LEVEL = "proof"
ASSUMPTIONS = [
    "max_count swept as listed; unbounded in inputs and history length",
]


def configs(tier):
    return [{"max_count": n} for n in (range(1, 10) if tier == "quick" else range(1, 34))]


def run(cfg, ctx):
    mx = cfg["max_count"]
    dut = Semaphore(mx)
    th = TH(dut, {"acquire": dut.acquire, "release": dut.release, "clear": dut.clear})
    hw = ctx.use(th.hw)
    cnt, cnt1 = N(hw.sig(dut.count)), N(hw.nxt(dut.count))
    pre = [le(cnt, mx)]
    a, r, c = th.m["acquire"], th.m["release"], th.m["clear"]
    ctx.prove("init.wf", hw.ts.at_init(z3.And(le(cnt, mx), cnt == 0)))
    ctx.prove("step.wf", le(cnt1, mx), pre=pre, hw=hw)
    ctx.prove("acquire.ready", z3.Implies(a.en, a.done == z3.ULT(cnt, N(mx))), pre=pre, hw=hw)
    ctx.prove("release.ready", z3.Implies(r.en, r.done == (cnt != 0)), pre=pre, hw=hw)
    ctx.prove("clear.ready", z3.Implies(c.en, c.done), pre=pre, hw=hw)
    for k, io in th.m.items():
        ctx.prove(f"{k}.run_iff_done", io.run == io.done, pre=pre, hw=hw)
    ctx.prove("step.count", cnt1 == z3.If(c.run, N(0), cnt + N(a.run) - N(r.run)), pre=pre, hw=hw)
    if mx > 1:
        ctx.cover("acquire+release", z3.And(*pre, a.run, r.run), hw=hw)
    ctx.cover("full", z3.And(*pre, cnt == mx), hw=hw)
    ctx.cover("clear+acquire", z3.And(*pre, a.run, c.run), hw=hw)


def _patch():
    import inspect, textwrap
    import transactron.lib.fifo as F

    src = textwrap.dedent(inspect.getsource(F.Semaphore.elaborate))
    src = src.replace("self.count < self.max_count", "self.count <= self.max_count")
    ns = dict(F.__dict__)
    exec(src, ns)
    F.Semaphore.elaborate = ns["elaborate"]


CANARIES = [{"name": "acquire_when_full", "cfg": {"max_count": 3}, "patch": _patch, "expect": r"acquire\.ready|step\.wf"}]
