"""C21 — MemoryBank returns what an ideal memory holds.

Abstract state: ideal contents M (identity abstraction onto the backing memory rows) and per read port a queue
P of at most two pending responses.
  request-time mode: P holds values   [overflow_data if overflow_valid] ++ [read-port register if read_output_valid];
                     read_req(a) appends M[a] (M'[a], i.e. including this cycle's writes, iff transparent).
  read_on_resp mode: P holds addresses [overflow_addr?] ++ [read_output_addr?]; wf ties the buffered data to M at
                     those addresses; read_resp returns M[head] (M'[head] iff transparent).
Common: wf: overflow_valid => read_output_valid; read_req.ready <=> |P| < 2; read_resp.ready <=> |P| > 0;
responses in request order; M' = masked write of every running write port."""

import z3
import amaranth.lib.memory as amem
from transactron.lib.storage import MemoryBank

from engine.th import TH
from spec.seq import N

PROPERTY = "C21"
HISTORY_LEMMAS = ['memory_history']  # lemmas/History.lean: one-cycle contracts => history-level statement (Lean 4)
LEVEL = "proof"
ASSUMPTIONS = [
    "caller obligation from the property statement: no two write ports address the same row in one cycle; addresses are below depth (argument layout range(depth))",
    "memory_type = amaranth.lib.memory.Memory here (identity abstraction); the multiport memory types are covered by composing with C23 (equivalence to the ideal memory)",
    "(transparent, read_on_resp, read ports, write ports, granularity, depth, shape) swept as listed; unbounded in inputs and history length",
]


def configs(tier):
    out = []
    for tr in (False, True):
        for ror in (False, True):
            for gran in (None, 1, 2):
                for rp, wp in ([(1, 1), (2, 1), (1, 2)] if tier == "quick" else [(1, 1), (2, 1), (1, 2), (2, 2)]):
                    for depth in ((3,) if tier == "quick" else (2, 3, 4)):
                        w = 4 if gran == 2 else 2
                        if tier == "quick" and gran == 2 and (rp, wp) != (1, 1):
                            continue
                        out.append({"transparent": tr, "read_on_resp": ror, "granularity": gran, "read_ports": rp, "write_ports": wp, "depth": depth, "width": w})
    return out


def run(cfg, ctx):
    tr, ror, gran, R, Wp, DEPTH, W = (cfg[k] for k in ("transparent", "read_on_resp", "granularity", "read_ports", "write_ports", "depth", "width"))
    dut = MemoryBank(shape=W, depth=DEPTH, transparent=tr, read_on_resp=ror, granularity=gran, read_ports=R, write_ports=Wp)
    prov = {}
    for i in range(R):
        prov[f"req{i}"] = dut.read_req[i]
        prov[f"resp{i}"] = dut.read_resp[i]
    for j in range(Wp):
        prov[f"wr{j}"] = dut.write[j]
    th = TH(dut, prov, capture=(MemoryBank,))
    hw = ctx.use(th.hw)
    ts = hw.ts
    loc = th.locals_of(dut)
    read_port = loc["read_port"]
    midx = ts.memory_of(read_port[0].data)
    rows, rows_n = ts.mem_rows(midx), ts.mem_next_rows[midx]
    m = th.m

    def rd(rws, a):
        r = z3.BitVecVal(0, W)
        for i in reversed(range(DEPTH)):
            r = z3.If(a == i, rws[i], r)
        return r

    def expand(mask):
        if gran is None:
            return z3.BitVecVal((1 << W) - 1, W)
        bits = [z3.Extract(i // gran, i // gran, mask) for i in range(W)]
        return z3.Concat(*reversed(bits))

    inr = lambda a: z3.ULT(N(a), N(DEPTH))
    wrs = []
    for j in range(Wp):
        io = m[f"wr{j}"]
        wrs.append((io.run, io.arg("addr"), io.arg("data"), expand(io.arg("mask")) if gran else expand(None)))
    A = [z3.Implies(run, inr(a)) for run, a, _, _ in wrs]
    for j in range(Wp):
        for k in range(j):
            A.append(z3.Not(z3.And(wrs[j][0], wrs[k][0], wrs[j][1] == wrs[k][1])))
    for i in range(R):
        A.append(z3.Implies(m[f"req{i}"].run, inr(m[f"req{i}"].arg("addr"))))
    ideal_n = []
    for r in range(DEPTH):
        v = rows[r]
        for run, a, d, em in wrs:
            v = z3.If(z3.And(run, a == r), (v & ~em) | (d & em), v)
        ideal_n.append(v)
    ctx.prove("mem.step", z3.And(*[rows_n[r] == ideal_n[r] for r in range(DEPTH)]), assume=A, hw=hw)
    for j in range(Wp):
        ctx.prove(f"wr{j}.ready", z3.Implies(m[f"wr{j}"].en, m[f"wr{j}"].done), assume=A, hw=hw)
    for i in range(R):
        req, resp = m[f"req{i}"], m[f"resp{i}"]
        rpk = ts.readport_key(read_port[i].data)
        rp, rp_n = ts.state[rpk], ts.next[rpk]
        rov, rov_n = hw.b(loc["read_output_valid"][i]), hw.nxt(loc["read_output_valid"][i]) == 1
        ov, ov_n = hw.b(loc["overflow_valid"][i]), hw.nxt(loc["overflow_valid"][i]) == 1
        od, od_n = hw.sig(loc["overflow_data"][i]), hw.nxt(loc["overflow_data"][i])
        req_addr = req.arg("addr")
        resp_data = resp.res("data")
        one = lambda c: z3.If(c, N(1), N(0))
        P = lambda name, post, pre: ctx.prove(f"port{i}.{name}", post, pre=pre, assume=A, hw=hw)
        if not ror:
            wf = z3.Implies(ov, rov)
            wf_n = z3.Implies(ov_n, rov_n)
            n0 = one(ov) + one(rov)
            n1 = one(ov_n) + one(rov_n)
            h0, s0 = z3.If(ov, od, rp), rp
            h1, s1 = z3.If(ov_n, od_n, rp_n), rp_n
            newval = rd(ideal_n if tr else rows, req_addr)
            head_val = h0
        else:
            roa, roa_n = hw.sig(loc["read_output_addr"][i]), hw.nxt(loc["read_output_addr"][i])
            oa, oa_n = hw.sig(loc["overflow_addr"][i]), hw.nxt(loc["overflow_addr"][i])
            mk = lambda ov_, rov_, roa_, oa_, rp_, od_, rws: z3.And(z3.Implies(ov_, rov_), z3.Implies(rov_, z3.And(inr(roa_), rp_ == rd(rws, roa_))), z3.Implies(ov_, z3.And(inr(oa_), od_ == rd(rws, oa_))))
            wf = mk(ov, rov, roa, oa, rp, od, rows)
            wf_n = mk(ov_n, rov_n, roa_n, oa_n, rp_n, od_n, rows_n)
            n0 = one(ov) + one(rov)
            n1 = one(ov_n) + one(rov_n)
            h0, s0 = z3.If(ov, oa, roa), roa
            h1, s1 = z3.If(ov_n, oa_n, roa_n), roa_n
            newval = req_addr
            head_val = rd(ideal_n if tr else rows, h0)
        pre = [wf]
        ctx.prove(f"port{i}.init.wf", ts.at_init(z3.And(wf, n0 == 0)))
        P("step.wf", wf_n, pre)
        P("read_req.ready_iff_fewer_than_two_pending", z3.Implies(req.en, req.done == z3.ULT(n0, N(2))), pre)
        P("read_resp.ready_iff_pending", z3.Implies(resp.en, resp.done == z3.UGT(n0, N(0))), pre)
        P("read_req.run_iff_done", req.run == req.done, pre)
        P("read_resp.run_iff_done", resp.run == resp.done, pre)
        P("read_resp.result", z3.Implies(resp.run, resp_data == head_val), pre)
        P("step.pending_count", n1 == n0 - one(resp.run) + one(req.run), pre)
        rem_len = n0 - one(resp.run)
        rem_head = z3.If(resp.run, s0, h0)
        P("step.pending_head", z3.Implies(z3.UGE(n1, N(1)), h1 == z3.If(rem_len == 0, newval, rem_head)), pre)
        P("step.pending_second", z3.Implies(n1 == 2, s1 == z3.If(rem_len == 1, newval, s0)), pre)
        ctx.cover(f"port{i}.two_pending", z3.And(*pre, *A, n0 == 2), hw=hw)
        ctx.cover(f"port{i}.req+resp+write", z3.And(*pre, *A, req.run, resp.run, wrs[0][0]), hw=hw)
    if Wp > 1:
        ctx.cover("two_writes", z3.And(*A, wrs[0][0], wrs[1][0]), hw=hw)


def _patch_overflow():
    import transactron.lib.storage as S
    import inspect, textwrap

    src = textwrap.dedent(inspect.getsource(S.MemoryBank.elaborate))
    old = "with m.If(read_output_valid[i] & ~overflow_valid[i] & self.read_req[i].run & ~self.read_resp[i].run):"
    assert old in src
    src = src.replace(old, "with m.If(read_output_valid[i] & self.read_req[i].run & ~self.read_resp[i].run):")
    ns = dict(S.__dict__)
    exec(src, ns)
    S.MemoryBank.elaborate = ns["elaborate"]


def _patch_transparency():
    import transactron.lib.storage as S
    import inspect, textwrap

    src = textwrap.dedent(inspect.getsource(S.MemoryBank.elaborate))
    old = "mem.read_port(transparent_for=write_port if self.transparent or self.read_on_resp else [])"
    assert old in src
    src = src.replace(old, "mem.read_port(transparent_for=write_port[:1] if self.transparent or self.read_on_resp else [])")
    ns = dict(S.__dict__)
    exec(src, ns)
    S.MemoryBank.elaborate = ns["elaborate"]


CANARIES = [
    {"name": "second_write_port_not_transparent", "cfg": {"transparent": True, "read_on_resp": False, "granularity": None, "read_ports": 1, "write_ports": 2, "depth": 3, "width": 2}, "patch": _patch_transparency, "expect": r"pending_(head|second)|step\.wf"},
]
