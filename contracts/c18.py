"""C18 — method transformers and connectors implement their documented function.

Targets are the library's Adapter (free readiness and results); callers are AdapterTrans (free enable and
arguments); maps and conditions are fixed non-trivial functions. Obligations hold for all inputs (Collector:
all histories, by induction over the inner Forwarder's buffer)."""

import z3
from amaranth import Cat, Signal
from transactron.lib import transformers as TR
from transactron.lib import connectors as CN
from transactron.lib.adapters import Adapter, AdapterTrans

from engine.th import TH
from spec.seq import N, Seq, at_most_one
from spec.components import ForwarderRep

PROPERTY = "C18"
LEVEL = "proof"
ASSUMPTIONS = [
    "component shapes swept as listed (crossbar up to 3x3, products/collector with 1-3 targets, 2-3 bit payloads); all inputs universally quantified; Collector additionally over all histories",
    "map / filter functions are fixed: i_fun(x) = x + 1, o_fun(y) = ~y, condition(arg) = arg[0] (one bit) and condition(arg) = arg (two bits, non-zero = true), product combiner = sum of the target results",
]
LAY = [("d", 3)]
OLAY = [("r", 2)]


def configs(tier):
    out = [{"kind": "connect_trans"}]
    for c1 in (1, 2, 3):
        for c2 in (1, 2, 3):
            if tier == "quick" and c1 * c2 > 6:
                continue
            out.append({"kind": "crossbar", "c1": c1, "c2": c2})
    out += [{"kind": "method_map"}, {"kind": "filter", "use_condition": False}, {"kind": "filter", "use_condition": True},
            {"kind": "filter", "use_condition": False, "cond": "wide"}, {"kind": "filter", "use_condition": True, "cond": "wide"},
            {"kind": "try_product_rival", "rival_first": True}, {"kind": "try_product_rival", "rival_first": False}]
    for n in (1, 2, 3):
        out += [{"kind": "product", "n": n, "combiner": False}, {"kind": "product", "n": n, "combiner": True}, {"kind": "try_product", "n": n}, {"kind": "collector", "n": n}]
    out.append({"kind": "nonexclusive_wrapper"})
    return out


def run(cfg, ctx):
    from transactron.utils.dependencies import DependencyContext, DependencyManager

    dm = DependencyManager()
    with DependencyContext(dm):  # Method.provide() registers in the dependency manager at construction time
        _run(cfg, ctx, dm)


def _run(cfg, ctx, dm):
    k = cfg["kind"]
    if k == "connect_trans":
        a, b = Adapter(i=LAY, o=OLAY), Adapter(i=OLAY, o=LAY)
        dut = CN.ConnectTrans.create(a.iface, b.iface)
        th = TH(dut, {}, required={"a": a, "b": b}, dependency_manager=dm)
        hw = ctx.use(th.hw)
        A, B = th.m["a"], th.m["b"]
        ctx.prove("transfers_exactly_when_both_can_run", z3.And(A.run == z3.And(A.en, B.en), B.run == A.run), hw=hw)
        ctx.prove("data_crossed", z3.Implies(A.run, z3.And(A.arg("d") == B.res("d"), B.arg("r") == A.res("r"))), hw=hw)
        ctx.cover("transfer", A.run, hw=hw)
    elif k == "crossbar":
        c1, c2 = cfg["c1"], cfg["c2"]
        As = [Adapter(i=LAY, o=OLAY) for _ in range(c1)]
        Bs = [Adapter(i=OLAY, o=LAY) for _ in range(c2)]
        dut = CN.CrossbarConnectTrans.create([a.iface for a in As], [b.iface for b in Bs])
        req = {f"a{i}": a for i, a in enumerate(As)}
        req.update({f"b{j}": b for j, b in enumerate(Bs)})
        th = TH(dut, {}, required=req, dependency_manager=dm)
        hw = th.hw
        ts_ = [t for t in th.top.transaction_manager.transactions if t.owner.__class__.__name__ == "ConnectTrans" or "ConnectTrans" in t.name]
        if len(ts_) != c1 * c2:
            raise RuntimeError(f"expected {c1 * c2} connecting transactions, found {len(ts_)}")
        ctx.use(hw)
        run = {(i, j): hw.b(ts_[i * c2 + j].run) for i in range(c1) for j in range(c2)}
        A = [th.m[f"a{i}"] for i in range(c1)]
        B = [th.m[f"b{j}"] for j in range(c2)]
        for i in range(c1):
            ctx.prove(f"a{i}.runs_iff_one_of_its_pairs_runs", A[i].run == z3.Or(*[run[i, j] for j in range(c2)]), hw=hw)
            ctx.prove(f"a{i}.at_most_one_partner", at_most_one([run[i, j] for j in range(c2)]), hw=hw)
        for j in range(c2):
            ctx.prove(f"b{j}.runs_iff_one_of_its_pairs_runs", B[j].run == z3.Or(*[run[i, j] for i in range(c1)]), hw=hw)
            ctx.prove(f"b{j}.at_most_one_partner", at_most_one([run[i, j] for i in range(c1)]), hw=hw)
        for (i, j), r in run.items():
            ctx.prove(f"pair{i}{j}.runs_only_if_both_ready", z3.Implies(r, z3.And(A[i].en, B[j].en)), hw=hw)
            ctx.prove(f"pair{i}{j}.data_crossed", z3.Implies(r, z3.And(A[i].arg("d") == B[j].res("d"), B[j].arg("r") == A[i].res("r"))), hw=hw)
            sharing = [run[x, y] for (x, y) in run if (x == i) != (y == j)]
            ctx.prove(f"pair{i}{j}.idle_only_if_a_partner_is_taken", z3.Implies(z3.And(A[i].en, B[j].en, z3.Not(r)), z3.Or(*sharing) if sharing else z3.BoolVal(False)), hw=hw)
        ctx.cover("two_pairs", z3.And(run[0, 0], run[c1 - 1, c2 - 1]), hw=hw) if c1 > 1 and c2 > 1 else None
    elif k == "method_map":
        tgt = Adapter(i=LAY, o=OLAY)
        dut = TR.MethodMap.create(tgt.iface, i_transform=(LAY, lambda m, v: {"d": v.d + 1}), o_transform=(OLAY, lambda m, v: {"r": ~v.r}))
        th = TH(dut, {"method": dut.method}, required={"t": tgt}, dependency_manager=dm)
        hw = ctx.use(th.hw)
        M, T = th.m["method"], th.m["t"]
        ctx.prove("ready_iff_target_ready", z3.Implies(M.en, M.done == T.en), hw=hw)
        ctx.prove("target_runs_iff_method_runs", T.run == M.run, hw=hw)
        ctx.prove("input_map_applied", z3.Implies(M.run, T.arg("d") == M.arg("d") + 1), hw=hw)
        ctx.prove("output_map_applied", z3.Implies(M.run, M.res("r") == ~T.res("r")), hw=hw)
    elif k == "filter":
        uc = cfg["use_condition"]
        tgt = Adapter(i=LAY, o=OLAY)
        wide = cfg.get("cond") == "wide"  # a condition value wider than one bit: "non-zero return value is interpreted as true"
        dut = TR.MethodFilter.create(tgt.iface, (lambda m, v: v.d) if wide else (lambda m, v: v.d[0]), default={"r": 2}, use_condition=uc)
        th = TH(dut, {"method": dut.method}, required={"t": tgt}, dependency_manager=dm)
        hw = ctx.use(th.hw)
        M, T = th.m["method"], th.m["t"]
        cond = (M.arg("d") != 0) if wide else (z3.Extract(0, 0, M.arg("d")) == 1)
        ctx.prove("target_called_iff_condition_holds", T.run == z3.And(M.run, cond), hw=hw)
        ctx.prove("result_is_target_result_or_default", z3.Implies(M.run, M.res("r") == z3.If(cond, T.res("r"), z3.BitVecVal(2, 2))), hw=hw)
        ctx.prove("argument_forwarded", z3.Implies(T.run, T.arg("d") == M.arg("d")), hw=hw)
        if uc:
            ctx.prove("not_blocked_by_target_when_condition_false", z3.Implies(z3.And(M.en, z3.Not(cond)), M.done), hw=hw)
            ctx.prove("blocked_when_condition_true_and_target_not_ready", z3.Implies(z3.And(cond, z3.Not(T.en)), z3.Not(M.done)), hw=hw)
            ctx.prove("runs_when_condition_true_and_target_ready", z3.Implies(z3.And(M.en, cond, T.en), M.done), hw=hw)
        else:
            ctx.prove("ready_iff_target_ready", z3.Implies(M.en, M.done == T.en), hw=hw)
    elif k == "product":
        n = cfg["n"]
        tgts = [Adapter(i=LAY, o=OLAY) for _ in range(n)]
        comb = (OLAY, lambda m, rs: {"r": sum((r.r for r in rs[1:]), rs[0].r)}) if cfg["combiner"] else None
        dut = TR.MethodProduct.create([t.iface for t in tgts], comb)
        th = TH(dut, {"method": dut.method}, required={f"t{i}": t for i, t in enumerate(tgts)}, dependency_manager=dm)
        hw = ctx.use(th.hw)
        M = th.m["method"]
        T = [th.m[f"t{i}"] for i in range(n)]
        ctx.prove("ready_iff_all_targets_ready", z3.Implies(M.en, M.done == z3.And(*[t.en for t in T])), hw=hw)
        for i, t in enumerate(T):
            ctx.prove(f"t{i}.runs_iff_method_runs", t.run == M.run, hw=hw)
            ctx.prove(f"t{i}.gets_the_argument", z3.Implies(M.run, t.arg("d") == M.arg("d")), hw=hw)
        exp = T[0].res("r")
        if cfg["combiner"]:
            for t in T[1:]:
                exp = exp + t.res("r")
        ctx.prove("result_is_combiner_of_target_results", z3.Implies(M.run, M.res("r") == exp), hw=hw)
    elif k == "try_product":
        n = cfg["n"]
        tgts = [Adapter(i=LAY, o=OLAY) for _ in range(n)]
        olay = [("ok", n), ("rs", 2 * n)]
        dut = TR.MethodTryProduct.create([t.iface for t in tgts], (olay, lambda m, rs: {"ok": Cat(s for s, _ in rs), "rs": Cat(r.r for _, r in rs)}))
        th = TH(dut, {"method": dut.method}, required={f"t{i}": t for i, t in enumerate(tgts)}, dependency_manager=dm)
        hw = ctx.use(th.hw)
        M = th.m["method"]
        T = [th.m[f"t{i}"] for i in range(n)]
        ctx.prove("always_ready", z3.Implies(M.en, M.done), hw=hw)
        ok, rs = M.res("ok"), M.res("rs")
        for i, t in enumerate(T):
            ctx.prove(f"t{i}.called_iff_method_runs_and_target_ready", t.run == z3.And(M.run, t.en), hw=hw)
            ctx.prove(f"t{i}.success_flag_reports_the_call", z3.Implies(M.run, (z3.Extract(i, i, ok) == 1) == t.run), hw=hw)
            ctx.prove(f"t{i}.gets_the_argument", z3.Implies(t.run, t.arg("d") == M.arg("d")), hw=hw)
            ctx.prove(f"t{i}.result_passed_to_combiner", z3.Implies(t.run, z3.Extract(2 * i + 1, 2 * i, rs) == t.res("r")), hw=hw)
    elif k == "try_product_rival":
        # a target of the product is also called by somebody else, who wins (or loses) the arbitration for it
        n = 2
        tgts = [Adapter(i=LAY, o=OLAY) for _ in range(n)]
        olay = [("ok", n), ("rs", 2 * n)]
        dut = TR.MethodTryProduct.create([t.iface for t in tgts], (olay, lambda m, rs: {"ok": Cat(s for s, _ in rs), "rs": Cat(r.r for _, r in rs)}))
        rival = AdapterTrans.create(tgts[0].iface)
        subs = {"rival": rival, "dut": dut} if cfg["rival_first"] else {"dut": dut, "rival": rival}
        th = TH(None, {"method": dut.method}, required={f"t{i}": t for i, t in enumerate(tgts)}, extra_submodules=subs,
                extra_inputs=[rival.en, rival.data_in.as_value()], extra_outputs=[rival.done, rival.data_out.as_value()], dependency_manager=dm)
        hw = ctx.use(th.hw)
        M = th.m["method"]
        T = [th.m[f"t{i}"] for i in range(n)]
        rdone, ren = hw.b(rival.done), hw.b(rival.en)
        ok, rs = M.res("ok"), M.res("rs")
        ok0, ok1 = z3.Extract(0, 0, ok) == 1, z3.Extract(1, 1, ok) == 1
        ctx.prove("always_ready", z3.Implies(M.en, M.done), hw=hw)
        ctx.prove("t0.called_by_exactly_one_party", T[0].run == z3.Or(rdone, z3.And(M.run, ok0)), hw=hw)
        ctx.prove("t0.success_flag_excludes_the_rival", z3.Implies(M.run, z3.Not(z3.And(ok0, rdone))), hw=hw)
        ctx.prove("t0.success_means_the_product_argument_arrived", z3.Implies(z3.And(M.run, ok0), z3.And(T[0].run, T[0].arg("d") == M.arg("d"))), hw=hw)
        ctx.prove("t0.some_requester_is_served", z3.Implies(z3.And(T[0].en, z3.Or(ren, M.run)), T[0].run), hw=hw)
        ctx.prove("t1.unaffected_by_the_rival", z3.And(T[1].run == z3.And(M.run, T[1].en), z3.Implies(M.run, ok1 == T[1].run)), hw=hw)
        ctx.prove("t0.result_passed_to_combiner", z3.Implies(z3.And(M.run, ok0), z3.Extract(1, 0, rs) == T[0].res("r")), hw=hw)
        ctx.cover("both_want_target0", z3.And(M.run, ren, T[0].en), hw=hw)
        ctx.cover("rival_wins" if cfg["rival_first"] else "product_wins", z3.And(M.run, ren, T[0].en, rdone if cfg["rival_first"] else ok0), hw=hw)
    elif k == "nonexclusive_wrapper":
        tgt = Adapter(i=LAY, o=OLAY)
        dut = TR.NonexclusiveWrapper.create(tgt.iface)
        c2 = AdapterTrans.create(dut.method)
        th = TH(dut, {"c1": dut.method}, required={"t": tgt}, extra_submodules={"caller2": c2},
                extra_inputs=[c2.en, c2.data_in.as_value()], extra_outputs=[c2.done, c2.data_out.as_value()], dependency_manager=dm)
        hw = ctx.use(th.hw)
        C1, T = th.m["c1"], th.m["t"]
        d2, en2 = hw.b(c2.done), hw.b(c2.en)
        ctx.prove("target_runs_iff_some_caller_runs", T.run == z3.Or(C1.done, d2), hw=hw)
        ctx.prove("callers_do_not_exclude_each_other", z3.Implies(z3.And(C1.en, en2, T.en), z3.And(C1.done, d2)), hw=hw)
        ctx.prove("each_caller_sees_target_result", z3.And(z3.Implies(C1.done, C1.res("r") == T.res("r")), z3.Implies(d2, hw.sig(c2.data_out.r) == T.res("r"))), hw=hw)
        ctx.prove("single_caller_argument_forwarded", z3.And(z3.Implies(z3.And(C1.done, z3.Not(d2)), T.arg("d") == C1.arg("d")),
                                                             z3.Implies(z3.And(d2, z3.Not(C1.done)), T.arg("d") == hw.sig(c2.data_in.d))), hw=hw)
        ctx.cover("both_callers", z3.And(C1.done, d2), hw=hw)
    elif k == "collector":
        n = cfg["n"]
        tgts = [Adapter(o=OLAY) for _ in range(n)]
        dut = TR.Collector.create([t.iface for t in tgts])
        th = TH(dut, {"method": dut.method}, required={f"t{i}": t for i, t in enumerate(tgts)}, capture=(TR.Collector, CN.Forwarder), dependency_manager=dm)
        hw = ctx.use(th.hw)
        fwd = th.locals_of(dut)["forwarder"]
        rep = ForwarderRep(hw, hw.rec, fwd)
        v0, v1 = rep.view(False), rep.view(True)
        M = th.m["method"]
        T = [th.m[f"t{i}"] for i in range(n)]
        pulls = [t.run for t in T]
        ctx.prove("init.empty", hw.ts.at_init(v0.n == 0))
        ctx.prove("at_most_one_target_pulled_per_cycle", at_most_one(pulls), hw=hw)
        ctx.prove("pull_only_when_buffer_empty", z3.Implies(z3.Or(*pulls), v0.n == 0), hw=hw)
        ctx.prove("some_ready_target_is_pulled_when_buffer_empty", z3.Implies(z3.And(v0.n == 0, z3.Or(*[t.en for t in T])), z3.Or(*pulls)), hw=hw)
        ctx.prove("method.ready_iff_result_available", z3.Implies(M.en, M.done == z3.Or(v0.n == 1, *pulls)), hw=hw)
        pulled = z3.BitVecVal(0, 2)
        for t in T:
            pulled = z3.If(t.run, t.res("r"), pulled)
        ctx.prove("method.result_is_oldest_collected", z3.Implies(M.run, M.res("r") == z3.If(v0.n == 1, v0[0], pulled)), hw=hw)
        exp = Seq(v0.n, [v0.e[0], v0.e[0]]).append1(pulled, z3.Or(*pulls)).drop(N(M.run))
        ctx.prove("step.view", z3.And(v1.n == exp.n, z3.ULE(exp.n, N(1)), z3.Implies(exp.n == 1, v1.e[0] == exp.e[0])), hw=hw)
        ctx.cover("pull+deliver", z3.And(pulls[0], M.run), hw=hw)
    else:
        raise ValueError(k)


def _src_patch(obj, name, old, new):
    import inspect, textwrap, sys

    mod = sys.modules[obj.__module__]
    src = textwrap.dedent(inspect.getsource(getattr(obj, name)))
    assert old in src, old
    src = src.replace(old, new)
    ns = dict(mod.__dict__)
    exec(src, ns)
    setattr(obj, name, ns[name])


def _patch_filter():
    _src_patch(TR.MethodFilter, "elaborate", "with condition(m, nonblocking=True) as branch:", "with condition(m, nonblocking=False) as branch:")


def _patch_tryproduct():
    _src_patch(TR.MethodTryProduct, "elaborate", "m.d.comb += success.eq(1)", "m.d.top_comb += success.eq(1)")


def _patch_connect():
    _src_patch(CN.ConnectTrans, "elaborate", "m.d.top_comb += data2.eq(self.method2(m, data1))", "m.d.top_comb += data2.eq(self.method2(m, data1))\n        m.d.top_comb += data1.as_value()[0].eq(0)")


CANARIES = [
    {"name": "filter_blocks_when_condition_false", "cfg": {"kind": "filter", "use_condition": True}, "patch": _patch_filter, "expect": r"not_blocked_by_target"},
    {"name": "try_product_always_reports_success", "cfg": {"kind": "try_product", "n": 2}, "patch": _patch_tryproduct, "expect": r"success_flag"},
    {"name": "connect_trans_corrupts_data", "cfg": {"kind": "connect_trans"}, "patch": _patch_connect, "expect": r"data_crossed"},
]
