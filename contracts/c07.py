"""C07 — the eager scheduler wastes no cycle.

Per design and transaction under eager_deterministic_cc_scheduler: fully enabled (the right-hand side of
C03) and not running => some transaction of SpecConf(t) (shared exclusive method on non-exclusive paths, or
lifted add_conflict) runs. Designs contain the listed non-conflicts: same callee in different alternatives,
nonexclusive callee / common ancestor, schedule_before pairs."""

from contracts import corelib

PROPERTY = "C07"
LEVEL = "proof"
ASSUMPTIONS = corelib.CORE_ASSUMPTIONS
TECHNIQUE = "contracts on the elaborated netlist of generated designs (real manager in the loop), discharged by z3 for all inputs; oracle = spec-level design semantics"


def configs(tier):
    return corelib.design_configs(tier, schedulers=("eager",))


def run(cfg, ctx):
    corelib.run_core(PROPERTY, cfg, ctx)


def _patch_calls_nonexclusive():
    import transactron.core.manager as MG
    import inspect, textwrap

    src = textwrap.dedent(inspect.getsource(MG.TransactionManager._conflict_graph))
    src = src.replace("common_ancestors[-1].nonexclusive or call_paths_exclusive(call1.call_path, call2.call_path)", "call_paths_exclusive(call1.call_path, call2.call_path)")
    ns = dict(MG.__dict__)
    exec(src, ns)
    MG.TransactionManager._conflict_graph = staticmethod(ns["_conflict_graph"])


def _patch_before_conflicts():
    import transactron.core.manager as MG
    import inspect, textwrap

    src = textwrap.dedent(inspect.getsource(MG.TransactionManager._conflict_graph))
    src = src.replace("conflict = relation.conflict and not", "conflict = True and not")
    ns = dict(MG.__dict__)
    exec(src, ns)
    MG.TransactionManager._conflict_graph = staticmethod(ns["_conflict_graph"])


CANARIES = [
    {"name": "nonexclusive_ancestor_conflicts", "cfg": {"design": "nonexclusive_ancestor", "scheduler": "eager"}, "patch": _patch_calls_nonexclusive, "expect": r"enabled_but_not_run"},
    {"name": "schedule_before_becomes_conflict", "cfg": {"design": "schedule_before", "scheduler": "eager"}, "patch": _patch_before_conflicts, "expect": r"enabled_but_not_run"},
]
