"""C07 — the eager scheduler wastes no cycle.

Per design and transaction under eager_deterministic_cc_scheduler: fully enabled (the right-hand side of
C03) and not running => some transaction of SpecConf(t) (shared exclusive method on non-exclusive paths, or
lifted add_conflict) runs. Designs contain the listed non-conflicts: same callee in different alternatives,
nonexclusive callee / common ancestor, schedule_before pairs."""

from contracts import corelib, schedfn

PROPERTY = "C07"
LEVEL = "proof"
ASSUMPTIONS = corelib.CORE_ASSUMPTIONS
TECHNIQUE = "contracts on the elaborated netlist of generated designs (real manager in the loop), discharged by z3 for all inputs; oracle = spec-level design semantics"


def configs(tier):
    return corelib.design_configs(tier, schedulers=("eager",)) + schedfn.configs(tier)


def run(cfg, ctx):
    if cfg.get("kind") == "schedfn":
        return schedfn.run(PROPERTY, cfg, ctx)
    corelib.run_core(PROPERTY, cfg, ctx)


def _patch_calls_nonexclusive():
    import transactron.core.manager as MG
    import inspect, textwrap

    src = textwrap.dedent(inspect.getsource(MG.TransactionManager._conflict_graph))
    src = src.replace("common_ancestors[-1].nonexclusive or call_paths_exclusive(call1.call_path, call2.call_path)", "call_paths_exclusive(call1.call_path, call2.call_path)")
    ns = dict(MG.__dict__)
    exec(src, ns)
    MG.TransactionManager._conflict_graph = staticmethod(ns["_conflict_graph"])


def _patch_before_conflicts():
    import transactron.core.manager as MG
    import inspect, textwrap

    src = textwrap.dedent(inspect.getsource(MG.TransactionManager._conflict_graph))
    src = src.replace("conflict = relation.conflict and not", "conflict = True and not")
    ns = dict(MG.__dict__)
    exec(src, ns)
    MG.TransactionManager._conflict_graph = staticmethod(ns["_conflict_graph"])


def _patch_scheduler_blocks_on_requests():
    import transactron.core.schedulers as S
    from amaranth import Module, Cat

    def sched(method_map, gr, cc, porder):
        m = Module()
        ccl = sorted(cc, key=lambda t: porder[t])
        for k, transaction in enumerate(ccl):
            conflicts = [ccl[j].ready & ccl[j].runnable for j in range(k) if ccl[j] in gr[transaction]]
            m.d.comb += transaction.run.eq(transaction.ready & transaction.runnable & ~Cat(conflicts).any())
        return m

    S.eager_deterministic_cc_scheduler = sched


CANARIES = [
    {"name": "scheduler_blocks_on_requests_not_grants", "cfg": {"kind": "schedfn", "n": 3, "graphs": [0, 8]}, "patch": _patch_scheduler_blocks_on_requests, "expect": r"scheduler\[.*request_not_granted"},
    {"name": "nonexclusive_ancestor_conflicts", "cfg": {"design": "nonexclusive_ancestor", "scheduler": "eager"}, "patch": _patch_calls_nonexclusive, "expect": r"enabled_but_not_run"},
    {"name": "schedule_before_becomes_conflict", "cfg": {"design": "schedule_before", "scheduler": "eager"}, "patch": _patch_before_conflicts, "expect": r"enabled_but_not_run"},
]
