"""C06 — body effects follow the run signal (comb / sync / av_comb / top_comb).

Witness statements at every position of nested bodies and If/Switch/FSM blocks: comb witness = run and
conditions; av_comb witness = the enclosing ordinary conditions only, independent of every run; top_comb
witness = 1; a sync witness register increments exactly when run and conditions hold."""

from contracts import corelib

PROPERTY = "C06"
LEVEL = "proof"
ASSUMPTIONS = corelib.CORE_ASSUMPTIONS
TECHNIQUE = "contracts on the elaborated netlist of generated designs (real manager in the loop), discharged by z3 for all inputs; oracle = spec-level design semantics"


def configs(tier):
    return corelib.design_configs(tier, schedulers=("eager",))


def run(cfg, ctx):
    corelib.run_core(PROPERTY, cfg, ctx)


def _patch_av():
    import transactron.core.tmodule as TM
    from amaranth.hdl._dsl import _guardedcontextmanager
    from transactron.core.tmodule import EnterType

    @_guardedcontextmanager("AvoidedIf")
    def AvoidedIf(self, cond):  # noqa: N802
        with self.main_module.If(cond):
            with self.avoiding_module.If(cond):  # av_comb now guarded by run too
                with self.path_builder.enter(EnterType.PUSH):
                    yield

    TM.TModule.AvoidedIf = AvoidedIf


CANARIES = [{"name": "av_comb_guarded_by_run", "cfg": {"design": "witness_everywhere", "scheduler": "eager"}, "patch": _patch_av, "expect": r"av_comb"}]
