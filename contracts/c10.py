"""C10 — well-formed designs elaborate without combinational loops.

Per design: elaboration under the default scheduler followed by Amaranth's bit-precise netlist cycle check
(Netlist.check_comb_cycles, run inside build_netlist) raises no CombinationalCycle. Designs follow the
documented rule: readiness is a function of free inputs / own registers, or additionally of the `run` of a
body declared earlier by schedule_before or nesting. Includes compositions of the real Forwarder, Pipe,
Connect, ConnectTrans, FIFO, BasicFifo, condition(), Collector, MethodFilter(use_condition), MethodMap."""

import random

import z3
from amaranth import Elaboratable, Signal, Module
from amaranth.hdl import _ir, _nir
from amaranth.hdl._ir import Fragment
from transactron import TModule, Method, Transaction, def_method, TransactionManager
from transactron.core.context import TransactronContextElaboratable
from transactron.lib import connectors as C
from transactron.lib import transformers as TR
from transactron.lib.fifo import BasicFifo
from transactron.lib.simultaneous import condition
from transactron.lib.adapters import Adapter, AdapterTrans

from designs import family
from designs.build import DesignTop
from designs.oracle import Oracle, Unbuilt
from contracts import c11

PROPERTY = "C10"
LEVEL = "proof"
TECHNIQUE = "per generated design: Amaranth's own netlist cycle check (bit-precise decision procedure) as the postcondition of elaboration"
LEVEL_TEXT = "Structural decision per design: the emitted netlist has no combinational cycle (Amaranth's Netlist.check_comb_cycles is complete for the netlist); bounded over designs."
ASSUMPTIONS = [
    "bounded over designs: curated family, condition() designs, round-robin family shapes (under the default scheduler), library compositions, seeded random designs incl. Forwarder-style ready-on-run dependencies",
    "the cycle check is Amaranth's (trusted); no SMT is involved",
]


def configs(tier):
    out = [{"design": n} for n in list(family.curated()) + list(family.cond_designs()) + list(family.rr_designs())]
    out += [{"lib": n} for n in LIB]
    n = 100 if tier == "quick" else 1000
    import os

    base = 40000 if tier == "quick" else 50000 + 100000 * int(os.environ.get("VERIF_SEED", "0"))
    out += [{"random": base + i} for i in range(n)]
    return out


def forwarder_chain(spec_rng):
    """random design extended with Forwarder-style methods: ready = free | run of an earlier-scheduled method"""
    spec = family.random_spec(spec_rng)
    ms = [it for it in spec["items"] if it["k"] == "method"]
    rels = spec.setdefault("relations", [])
    for a, b in zip(ms, ms[1:]):
        if spec_rng.random() < 0.5 and not b["body"] and not a["body"]:
            b["ready"] = [spec_rng.choice(["run_or", "run_and"]), a["name"]]
            rels.append(["before", a["name"], b["name"], False])
    return spec


class LibTop(Elaboratable):
    def __init__(self, kind):
        self.kind = kind

    def elaborate(self, platform):
        m = TModule()
        k = self.kind
        lay = [("d", 2)]
        src = Adapter(o=lay)
        snk = Adapter(i=lay)
        m.submodules.src, m.submodules.snk = src, snk
        if k == "forwarder_pipe_chain":
            m.submodules.f = f = C.Forwarder(lay)
            m.submodules.p = p = C.Pipe(lay)
            m.submodules.f2 = f2 = C.Forwarder(lay)
            m.submodules.c0 = C.ConnectTrans.create(src.iface, f.write)
            m.submodules.c1 = C.ConnectTrans.create(f.read, p.write)
            m.submodules.c2 = C.ConnectTrans.create(p.read, f2.write)
            m.submodules.c3 = C.ConnectTrans.create(f2.read, snk.iface)
        elif k == "pipe_pipe_fifo":
            m.submodules.p1 = p1 = C.Pipe(lay)
            m.submodules.p2 = p2 = C.Pipe(lay)
            m.submodules.q = q = BasicFifo(lay, 2)
            m.submodules.q2 = q2 = C.FIFO(lay, 2)
            for i, (a, b) in enumerate([(src.iface, p1.write), (p1.read, p2.write), (p2.read, q.write), (q.read, q2.write), (q2.read, snk.iface)]):
                m.submodules[f"c{i}"] = C.ConnectTrans.create(a, b)
        elif k == "connect_between_forwarders":
            m.submodules.f = f = C.Forwarder(lay)
            m.submodules.cn = cn = C.Connect(lay)
            m.submodules.f2 = f2 = C.Forwarder(lay)
            for i, (a, b) in enumerate([(src.iface, f.write), (f.read, cn.write), (cn.read, f2.write), (f2.read, snk.iface)]):
                m.submodules[f"c{i}"] = C.ConnectTrans.create(a, b)
        elif k == "condition_on_forwarder":
            m.submodules.f = f = C.Forwarder(lay)
            m.submodules.p = p = C.Pipe(lay)
            c1, c2 = Signal(), Signal()
            self.extra_in = [c1, c2]
            with Transaction().body(m):
                with condition(m, nonblocking=True) as branch:
                    with branch(c1):
                        f.write(m, src.iface(m))
                    with branch(c2):
                        p.write(m, d=1)
            m.submodules.c1 = C.ConnectTrans.create(f.read, snk.iface)
            with Transaction().body(m):
                p.read(m)
        elif k == "filter_map_collector":
            m.submodules.f = f = C.Forwarder(lay)
            m.submodules.flt = flt = TR.MethodFilter.create(f.write, lambda mm, v: v.d != 3, use_condition=True)
            m.submodules.mp = mp = TR.MethodMap.create(flt.method, i_transform=(lay, lambda mm, v: {"d": v.d + 1}))
            m.submodules.c0 = C.ConnectTrans.create(src.iface, mp.method)
            m.submodules.p = p = C.Pipe(lay)
            m.submodules.col = col = TR.Collector.create([f.read, p.read])
            m.submodules.c1 = C.ConnectTrans.create(col.method, snk.iface)
            src2 = Adapter(o=lay)
            m.submodules.src2 = src2
            self.extra_ad = [src2]
            m.submodules.c2 = C.ConnectTrans.create(src2.iface, p.write)
        elif k == "crossbar":
            srcs = [Adapter(o=lay) for _ in range(2)]
            snks = [Adapter(i=lay) for _ in range(2)]
            self.extra_ad = srcs + snks
            for i, a in enumerate(srcs + snks):
                m.submodules[f"x{i}"] = a
            m.submodules.cb = C.CrossbarConnectTrans.create([a.iface for a in srcs], [a.iface for a in snks])
            m.submodules.c0 = C.ConnectTrans.create(src.iface, snk.iface)
        else:
            raise ValueError(k)
        self.ads = [src, snk] + getattr(self, "extra_ad", [])
        return m


LIB = ["forwarder_pipe_chain", "pipe_pipe_fifo", "connect_between_forwarders", "condition_on_forwarder", "filter_map_collector", "crossbar"]


def try_netlist(top, ports_fn, ctx=None):
    from engine.hw import Recorder

    with Recorder() as rec:  # records which /repo functions ran during elaboration (reported as functions under contract)
        try:
            frag = Fragment.get(top, None)
            design = frag.prepare(ports=ports_fn(), hierarchy=("top",))
            _ir.build_netlist(design)
            err = None
        except Exception as e:  # noqa: BLE001
            err = e
    if ctx is not None:
        ctx.functions.update(rec.functions)
    return err


def run(cfg, ctx):
    if "lib" in cfg:
        lt = LibTop(cfg["lib"])
        top = TransactronContextElaboratable(lt)

        def ports():
            ps = list(getattr(lt, "extra_in", []))
            for a in lt.ads:
                ps += [a.en, a.done] + [v for v in (a.data_in.as_value(), a.data_out.as_value()) if len(v)]
            return ps

        err = try_netlist(top, ports, ctx)
        ctx.functions.add(("TransactionManager.elaborate", "transactron/core/manager.py"))
        ctx.functions.add(("eager_deterministic_cc_scheduler", "transactron/core/schedulers.py"))
        if err is not None and not isinstance(err, _nir.CombinationalCycle):
            raise err
        ctx.structural("elaborates_without_combinational_cycle", err is None, "amaranth-0.5.9 Netlist.check_comb_cycles", detail=None if err is None else repr(err)[:500])
        return
    if "design" in cfg:
        spec = {**family.curated(), **family.cond_designs(), **family.rr_designs()}[cfg["design"]]
    else:
        spec = forwarder_chain(random.Random(cfg["random"]))
    d = DesignTop(spec)
    top = TransactronContextElaboratable(d, transaction_manager=TransactionManager())
    err = try_netlist(top, lambda: d.inputs + d.outputs, ctx)
    ctx.functions.add(("TransactionManager.elaborate", "transactron/core/manager.py"))
    ctx.functions.add(("eager_deterministic_cc_scheduler", "transactron/core/schedulers.py"))
    ctx.functions.add(("TransactionManager._conflict_graph", "transactron/core/manager.py"))
    if isinstance(err, _nir.CombinationalCycle):
        ctx.structural("elaborates_without_combinational_cycle", False, "amaranth-0.5.9 Netlist.check_comb_cycles", detail=repr(err)[:500])
        return
    if err is not None:
        if "random" in cfg:
            ctx.notes.append(f"skipped random:{cfg['random']}: rejected as ill-formed ({type(err).__name__})")
            return
        raise err
    ctx.structural("elaborates_without_combinational_cycle", True, "amaranth-0.5.9 Netlist.check_comb_cycles")


def _patch_porder():
    import transactron.core.manager as MG
    import inspect, textwrap

    src = textwrap.dedent(inspect.getsource(MG.TransactionManager._conflict_graph))
    old = "networkx.DiGraph(pgr).reverse()"
    assert old in src
    src = src.replace(old, "networkx.DiGraph(pgr)")  # priority order inverted: schedule_before targets come first
    ns = dict(MG.__dict__)
    exec(src, ns)
    MG.TransactionManager._conflict_graph = staticmethod(ns["_conflict_graph"])


def _patch_forwarder():
    import inspect, textwrap

    src = textwrap.dedent(inspect.getsource(C.Forwarder.elaborate))
    old = "self.write.schedule_before(self.read)  # to avoid combinational loops"
    assert old in src
    src = src.replace(old, "self.read.schedule_before(self.write)")
    ns = dict(C.__dict__)
    exec(src, ns)
    C.Forwarder.elaborate = ns["elaborate"]


CANARIES = [
    {"name": "priority_order_inverted", "cfg": {"design": "schedule_before_conflicting"}, "patch": _patch_porder, "expect": r"combinational_cycle"},
    {"name": "forwarder_schedules_read_first", "cfg": {"lib": "forwarder_pipe_chain"}, "patch": _patch_forwarder, "expect": r"combinational_cycle|elaboration", "error_ok": True},
]
