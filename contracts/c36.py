"""C36 — bit-manipulation helpers compute their documented functions.

Each real helper from transactron/utils/amaranth_ext/functions.py is called in a one-line module,
elaborated by Amaranth, and `forall inputs: A => out = spec(in)` is discharged by z3 on the netlist
(combinational: complete over all input valuations for each width / parameter in the sweep)."""

import itertools

import z3
from amaranth import Signal, signed, unsigned, Value, Cat, C, Mux
from amaranth.lib import data

from transactron.utils.amaranth_ext import functions as F
from engine.comb import Comb, I, IW, bit, ite_chain

PROPERTY = "C36"
LEVEL = "proof"
ASSUMPTIONS = [
    "mod_incr/mod_add: sig < mod (the operand is a residue: every call site passes a register ranging over range(mod)); mod_add additionally incr <= max_incr (docstring); max_incr itself is unrestricted (sweep includes max_incr > mod)",
    "cyclic_mask: start, end < bits (the arguments are Signal(range(bits)) at every use); only the low `bits` bits of the result are specified",
    "count_leading/trailing_zeros of 0 is the width (reference functions in test/utils/test_utils.py; forced by extract_lowest_set_bit(v) = (1 << ctz(v))[:len])",
    "widths / operand counts / moduli swept as listed; unbounded in input values",
]


def configs(tier):
    # wide / boundary widths (obligations stay < 1 s each): breakage that only shows above the small sweep
    WIDE = [12, 16, 17, 31, 32, 33, 64, 65]
    W = (list(range(1, 9)) if tier == "quick" else list(range(1, 17))) + [w for w in WIDE if tier == "quick" or w > 16]
    MODS = (list(range(1, 10)) if tier == "quick" else list(range(1, 18))) + [31, 32, 33, 63, 64, 65, 100]
    out = []
    for w in W:
        if w <= 33:  # the popcount obligation (integer sum of w bits) needs ~10 s at w = 64: kept out, see DESIGN 13.1
            out.append({"fn": "popcount_ctz_clz", "w": w})
        out.append({"fn": "lowest_set_bit_masks", "w": w})
    for b in W:
        out.append({"fn": "cyclic_mask", "bits": b})
    # start / end declared wider than range(bits) needs (and of different widths), values still < bits (DESIGN 13.2)
    for b in ((1, 2, 3, 4, 5, 8) if tier == "quick" else range(1, 13)):
        out.append({"fn": "cyclic_mask", "bits": b, "extra": 1})
        out.append({"fn": "cyclic_mask", "bits": b, "extra": 2, "extra_end": 0})
        out.append({"fn": "cyclic_mask", "bits": b, "extra": 0, "extra_end": 2})
    for mod in MODS:
        out.append({"fn": "mod_incr", "mod": mod})
        for mi in sorted(({0, 1, 2, 3, mod} & set(range(0, mod + 1))) | {mod + 1, 2 * mod + 1}):
            out.append({"fn": "mod_add", "mod": mod, "max_incr": mi})
    # the operands' widths are parameters too ("for every input value and width"): sig (and incr) declared wider than
    # range(mod) needs, with the value still < mod (DESIGN 13.2, seeded change C36c)
    for mod in ((1, 2, 3, 4, 5, 8, 16) if tier == "quick" else range(1, 18)):
        for extra in (1, 3):
            out.append({"fn": "mod_incr", "mod": mod, "extra": extra})
            for mi in sorted({1, 3, mod}):
                out.append({"fn": "mod_add", "mod": mod, "max_incr": mi, "extra": extra})
    shapes_sets = [
        ["u3"], ["s3"], ["u2", "u4"], ["s2", "u3"], ["u1", "s4", "u2"], ["u3", "u3", "s2", "u1"], ["s3", "u2", "s1", "u4", "u2"],
    ]
    if tier != "quick":
        shapes_sets += [["u8", "s8"], ["s5", "s5", "s5"], ["u6", "u1", "u6", "s7", "u2"], ["u1"], ["s1", "s1"]]
    for ss in shapes_sets:
        out.append({"fn": "reductions", "shapes": ss})
    for sw, vw in ([(1, 3), (2, 2), (3, 4)] if tier == "quick" else [(1, 3), (2, 2), (3, 4), (4, 8), (1, 1)]):
        out.append({"fn": "mux", "sel_w": sw, "val_w": vw})
    out.append({"fn": "mux_struct"})
    for k in (0, 1, 2, 3):
        out.append({"fn": "switch_value", "variant": k})
    return out


def _sig(spec, name):
    return Signal(signed(int(spec[1:])) if spec[0] == "s" else unsigned(int(spec[1:])), name=name)


def run(cfg, ctx):
    fn = cfg["fn"]
    if fn == "popcount_ctz_clz":
        w = cfg["w"]
        x = Signal(w, name="x")
        c = Comb([x], lambda m: [F.popcount(x), F.count_trailing_zeros(x), F.count_leading_zeros(x)])
        hw = ctx.use(c.hw)
        (xx,), (pc, tz, lz) = c.ins, c.outs
        pcs = sum((I(bit(xx, i)) for i in range(w)), I(0))
        tzs = I(w)
        for i in reversed(range(w)):
            tzs = z3.If(bit(xx, i), I(i), tzs)
        lzs = I(w)
        for i in range(w):
            lzs = z3.If(bit(xx, i), I(w - 1 - i), lzs)
        ctx.prove("popcount", I(pc) == pcs, hw=hw)
        ctx.prove("count_trailing_zeros", I(tz) == tzs, hw=hw)
        ctx.prove("count_leading_zeros", I(lz) == lzs, hw=hw)
        ctx.cover("nonzero", xx != 0)
    elif fn == "lowest_set_bit_masks":
        w = cfg["w"]
        x = Signal(w, name="x")
        fns = [F.extract_lowest_set_bit, F.clear_lowest_set_bit, F.mask_from_first_set_bit, F.mask_after_first_set_bit,
               F.mask_until_first_set_bit, F.mask_before_first_set_bit]
        c = Comb([x], lambda m: [f(x) for f in fns])
        hw = ctx.use(c.hw)
        (xx,) = c.ins
        # first = index of lowest set bit, or w if none
        first = I(w)
        for i in reversed(range(w)):
            first = z3.If(bit(xx, i), I(i), first)
        specs = {
            "extract_lowest_set_bit": lambda i: first == i,
            "clear_lowest_set_bit": lambda i: z3.And(bit(xx, i), first != i),
            "mask_from_first_set_bit": lambda i: z3.ULE(first, I(i)),
            "mask_after_first_set_bit": lambda i: z3.ULT(first, I(i)),
            "mask_until_first_set_bit": lambda i: z3.UGE(first, I(i)),
            "mask_before_first_set_bit": lambda i: z3.UGT(first, I(i)),
        }
        for f, o, shp in zip(fns, c.outs, c.shapes):
            sp = specs[f.__name__]
            ctx.prove(f.__name__, z3.And(o.size() == w, *[bit(o, i) == sp(i) for i in range(w)]), hw=hw)
    elif fn == "cyclic_mask":
        bits = cfg["bits"]
        st = Signal(len(Signal(range(bits))) + cfg.get("extra", 0), name="st")
        en = Signal(len(Signal(range(bits))) + cfg.get("extra_end", cfg.get("extra", 0)), name="en")
        ins = [s for s in (st, en) if len(s)]
        c = Comb(ins, lambda m: [F.cyclic_mask(bits, st, en)])
        hw = ctx.use(c.hw)
        si = I(c.hw.sig(st)) if len(st) else I(0)
        ei = I(c.hw.sig(en)) if len(en) else I(0)
        (o,) = c.outs
        fs = []
        for i in range(bits):
            inm = z3.If(z3.ULE(si, ei), z3.And(z3.ULE(si, I(i)), z3.ULE(I(i), ei)), z3.Or(z3.UGE(I(i), si), z3.ULE(I(i), ei)))
            fs.append(bit(o, i) == inm)
        A = [z3.ULT(si, I(bits)), z3.ULT(ei, I(bits))]
        ctx.prove("cyclic_mask", z3.And(*fs), assume=A, hw=hw)
        ctx.cover("pre", z3.And(*A))
    elif fn == "mod_incr":
        mod = cfg["mod"]
        sg = Signal(len(Signal(range(mod))) + cfg.get("extra", 0), name="sg")
        ins = [sg] if len(sg) else []
        c = Comb(ins, lambda m: [F.mod_incr(sg, mod)])
        hw = ctx.use(c.hw)
        a = I(c.hw.sig(sg)) if len(sg) else I(0)
        A = [z3.ULT(a, I(mod))]
        ctx.prove("mod_incr", I(c.outs[0]) == z3.URem(a + 1, I(mod)), assume=A, hw=hw)
        ctx.cover("pre", z3.And(*A))
    elif fn == "mod_add":
        mod, mi = cfg["mod"], cfg["max_incr"]
        sg = Signal(len(Signal(range(mod))) + cfg.get("extra", 0), name="sg")
        inc = Signal(len(Signal(range(mi + 1))) + cfg.get("extra", 0), name="inc")
        ins = [s for s in (sg, inc) if len(s)]
        c = Comb(ins, lambda m: [F.mod_add(sg, mod, inc, mi)])
        hw = ctx.use(c.hw)
        a = I(c.hw.sig(sg)) if len(sg) else I(0)
        b = I(c.hw.sig(inc)) if len(inc) else I(0)
        A = [z3.ULT(a, I(mod)), z3.ULE(b, I(mi))]
        ctx.prove("mod_add", I(c.outs[0]) == z3.URem(a + b, I(mod)), assume=A, hw=hw)
        ctx.cover("pre", z3.And(*A))
        # the constant-increment form used for CircularAllocator.idents
        c2 = Comb([sg] if len(sg) else [], lambda m: [F.mod_add(sg, mod, mi, mi)])
        hw2 = ctx.use(c2.hw)
        a2 = I(c2.hw.sig(sg)) if len(sg) else I(0)
        ctx.prove("mod_add.const_incr", I(c2.outs[0]) == z3.URem(a2 + mi, I(mod)), assume=[z3.ULT(a2, I(mod))], hw=hw2)
    elif fn == "reductions":
        sigs = [_sig(s, f"v{i}") for i, s in enumerate(cfg["shapes"])]
        c = Comb(sigs, lambda m: [F.sum_value(*sigs), F.or_value(sigs), F.and_value(*sigs), F.min_value(sigs), F.max_value(*sigs)])
        hw = ctx.use(c.hw)
        vals = [I(t, s.shape().signed) for t, s in zip(c.ins, sigs)]
        osum, oor, oand, omin, omax = [I(o, shp.signed) for o, shp in zip(c.outs, c.shapes)]
        ssum = sum(vals[1:], vals[0])
        sor = vals[0]
        sand = vals[0]
        smin = vals[0]
        smax = vals[0]
        for v in vals[1:]:
            sor = sor | v
            sand = sand & v
            smin = z3.If(v < smin, v, smin)
            smax = z3.If(v > smax, v, smax)
        ctx.prove("sum_value", osum == ssum, hw=hw)
        ctx.prove("or_value", oor == sor, hw=hw)
        ctx.prove("and_value", oand == sand, hw=hw)
        ctx.prove("min_value", omin == smin, hw=hw)
        ctx.prove("max_value", omax == smax, hw=hw)
    elif fn == "mux":
        sel = Signal(cfg["sel_w"], name="sel")
        a = Signal(cfg["val_w"], name="a")
        b = Signal(signed(cfg["val_w"]), name="b")
        c = Comb([sel, a, b], lambda m: [F.mux(sel, a, b), F.mux(sel, b, a), F.mux(sel, a, 1), F.mux(sel, 0, b)])
        hw = ctx.use(c.hw)
        s_, a_, b_ = c.ins
        ai, bi = I(a_), I(b_, True)
        outs = [I(o, shp.signed) for o, shp in zip(c.outs, c.shapes)]
        nz = s_ != 0
        ctx.prove("mux(sel,a,b)", outs[0] == z3.If(nz, ai, bi), hw=hw)
        ctx.prove("mux(sel,b,a)", outs[1] == z3.If(nz, bi, ai), hw=hw)
        ctx.prove("mux(sel,a,const)", outs[2] == z3.If(nz, ai, I(1)), hw=hw)
        ctx.prove("mux(sel,const,b)", outs[3] == z3.If(nz, I(0), bi), hw=hw)
    elif fn == "mux_struct":
        lay = data.StructLayout({"x": 2, "y": signed(2)})
        sel = Signal(1, name="sel")
        a = Signal(lay, name="a")
        b = Signal(lay, name="b")
        c = Comb([sel, a, b], lambda m: [F.mux(sel, a, b), F.switch_value(sel, [(1, a), (None, b)])])
        hw = ctx.use(c.hw)
        s_, a_, b_ = c.ins
        ctx.prove("mux(struct)", c.outs[0] == z3.If(s_ != 0, a_, b_), hw=hw)
        ctx.prove("switch_value(struct)", c.outs[1] == z3.If(s_ == 1, a_, b_), hw=hw)
        r = F.mux(sel, a, b)
        ctx.prove("mux(struct).shape_preserved", z3.BoolVal(isinstance(r, data.View) and r.shape() == lay))
    elif fn == "switch_value":
        k = cfg["variant"]
        t = Signal(3, name="t")
        vs = [Signal(4, name=f"c{i}") for i in range(4)]
        variants = [
            [(0, vs[0]), (3, vs[1]), ("1--", vs[2]), (None, vs[3])],
            [("-1-", vs[0]), ((1, 5), vs[1]), ("0--", vs[2])],  # no default: 0 when nothing matches
            [((0, "11-"), vs[0]), (None, vs[1]), (2, vs[2])],  # default before a later case: default wins
            [(7, vs[0]), ("--1", vs[1]), ("-1-", vs[2]), ("1--", vs[3])],
        ]
        cases = variants[k]
        c = Comb([t] + vs, lambda m: [F.switch_value(t, cases)])
        hw = ctx.use(c.hw)
        tt = c.ins[0]
        vv = dict(zip([id(v) for v in vs], c.ins[1:]))

        def matches(key):
            if key is None:
                return z3.BoolVal(True)
            if isinstance(key, tuple):
                return z3.Or(*[matches(x) for x in key])
            if isinstance(key, int):
                return tt == key
            cs = []
            for i, ch in enumerate(key):
                bi = len(key) - 1 - i
                if ch != "-":
                    cs.append(bit(tt, bi) == (ch == "1"))
            return z3.And(*cs) if cs else z3.BoolVal(True)

        spec = z3.BitVecVal(0, 4)
        for key, val in reversed(cases):
            spec = z3.If(matches(key), vv[id(val)], spec)
        ctx.prove("switch_value", c.outs[0] == spec, hw=hw)
    else:
        raise ValueError(fn)


def _patch_ctz():
    orig = F.count_trailing_zeros

    def bad(s):
        # wrong for the all-zero input only
        return orig(s | (1 << (len(s) - 1)))

    F.count_trailing_zeros = bad


def _patch_mod_add():
    from amaranth.hdl._ast import SwitchValue

    def bad(sig, mod, incr, max_incr):
        sig = Value.cast(sig)
        incr = Value.cast(incr)
        if not (mod & (mod - 1)):
            return (sig + incr) & (mod - 1)
        return SwitchValue(sig + incr, [(mod + i, i) for i in range(0, max_incr - 1)] + [(None, sig + incr)])

    F.mod_add = bad


def _patch_mod_incr_truncates():
    # the power-of-two branch wraps modulo 2**len(sig) instead of modulo mod: right only when len(sig) == log2(mod)
    def bad(sig, mod):
        sig = Value.cast(sig)
        if not (mod & (mod - 1)):
            return (sig + 1)[: len(sig)]
        return Mux(sig == mod - 1, 0, sig + 1)

    F.mod_incr = bad


def _patch_min():
    import operator

    F.min_value = lambda *values: F.generic_min_value(*values, operator=operator.le) if False else F.generic_min_value(*values, operator=lambda a, b: a.as_unsigned() < b.as_unsigned())


CANARIES = [
    {"name": "ctz_zero_input", "cfg": {"fn": "popcount_ctz_clz", "w": 5}, "patch": _patch_ctz, "expect": r"count_trailing_zeros"},
    {"name": "mod_add_drops_last_case", "cfg": {"fn": "mod_add", "mod": 5, "max_incr": 3}, "patch": _patch_mod_add, "expect": r"mod_add"},
    {"name": "mod_incr_wraps_at_operand_width", "cfg": {"fn": "mod_incr", "mod": 8, "extra": 1}, "patch": _patch_mod_incr_truncates, "expect": r"mod_incr"},
    {"name": "min_value_ignores_sign", "cfg": {"fn": "reductions", "shapes": ["s2", "u3"]}, "patch": _patch_min, "expect": r"min_value"},
]
