"""C37 — shifters and rotators.

Real functions from transactron/utils/amaranth_ext/shifter.py in a one-line module; spec by bit (element)
index: shift_right: out[i] = v[i+off] if i+off < w else placeholder; shift_left mirrored;
rotate_right: out[i] = v[(i+off) mod w]; vector variants: the same on element indices."""

import z3
from amaranth import Signal, signed, unsigned, Value
from amaranth.lib import data, enum

from transactron.utils.amaranth_ext import shifter as S
from engine.comb import Comb, I, bit

PROPERTY = "C37"
LEVEL = "proof"
ASSUMPTIONS = [
    "widths / sequence lengths swept as listed; offset operands: a signal ranging over 0..2*width (all its values), a signal just wide enough for 0..width-1, and Python-int constants 0..width",
    "obligations named *.offset_le_width carry the precondition offset <= width, *.offset_gt_width the complement; the latter are the known finding recorded in known_findings.json",
]


class Kind(enum.Enum, shape=2):
    A = 0
    B = 1
    C = 2


def configs(tier):
    W = range(1, 9) if tier == "quick" else range(1, 17)
    out = [{"fn": "scalar", "w": w} for w in W]
    # the shape of the offset operand is a parameter too: an offset signal just wide enough for 0..w-1, and constant offsets
    out += [{"fn": "scalar", "w": w, "off": "narrow"} for w in W if w >= 2]
    out += [{"fn": "scalar_const", "w": w} for w in (W if tier != "quick" else (1, 2, 3, 4, 8))]
    # the value operand's shape is a parameter as well: signed-shaped values are shifted as bit patterns, like unsigned ones
    out += [{"fn": "scalar", "w": w, "signed": True} for w in ((2, 3, 5) if tier == "quick" else range(1, 9))]
    out += [{"fn": "scalar_const", "w": w, "signed": True} for w in ((3, 4) if tier == "quick" else range(1, 9))]
    out += [{"fn": "vector", "n": n, "shape": "u2", "off": "narrow"} for n in (2, 3, 4)]
    lens = [1, 2, 3, 4, 5] if tier == "quick" else [1, 2, 3, 4, 5, 6, 7, 8]
    for n in lens:
        for shape in (["u2", "s2", "struct", "enum"] if (tier != "quick" or n in (2, 3)) else ["u2"]):
            out.append({"fn": "vector", "n": n, "shape": shape})
    return out


def sel(bits, idx, default):
    """bits: list of z3 terms; idx: IW-bit integer term."""
    r = default
    for j in reversed(range(len(bits))):
        r = z3.If(idx == j, bits[j], r)
    return r


def run(cfg, ctx):
    if cfg["fn"] == "scalar":
        w = cfg["w"]
        v = Signal(signed(w) if cfg.get("signed") else w, name="v")
        v2 = Signal(signed(w) if cfg.get("signed") else w, name="v2")
        off = Signal(range(w) if cfg.get("off") == "narrow" else range(2 * w + 1), name="off")
        ph = Signal(1, name="ph")
        c = Comb([v, v2, off, ph], lambda m: [S.shift_left(v, off, ph), S.shift_right(v, off, ph), S.rotate_left(v, off), S.rotate_right(v, off),
                                               S.generic_shift_right(v, v2, off), S.generic_shift_left(v, v2, off), S.shift_right(v, off), S.shift_left(v, off)])
        hw = ctx.use(c.hw)
        vv, vv2, oo, pp = c.ins
        sl, sr, rl, rr, gr, gl, sr0, sl0 = c.outs
        oi = I(oo)
        b = lambda x, i: z3.Extract(i, i, x)
        vb = [b(vv, i) for i in range(w)]
        v2b = [b(vv2, i) for i in range(w)]
        zero = z3.BitVecVal(0, 1)
        f = {}
        f["shift_right"] = z3.And(*[b(sr, i) == sel(vb, I(i) + oi, pp) for i in range(w)])
        f["shift_left"] = z3.And(*[b(sl, i) == sel(vb, I(i) - oi, pp) for i in range(w)])
        f["shift_right.default_placeholder"] = z3.And(*[b(sr0, i) == sel(vb, I(i) + oi, zero) for i in range(w)])
        f["shift_left.default_placeholder"] = z3.And(*[b(sl0, i) == sel(vb, I(i) - oi, zero) for i in range(w)])
        f["rotate_right"] = z3.And(*[b(rr, i) == sel(vb, z3.URem(I(i) + oi, I(w)), zero) for i in range(w)])
        f["rotate_left"] = z3.And(*[b(rl, i) == sel(vb, z3.URem(I(i) + I(2 * w) * 2 - oi, I(w)), zero) for i in range(w)])
        # generic: shift value1, fill from value2 (low bits of value2 enter first)
        f["generic_shift_right"] = z3.And(*[b(gr, i) == sel(vb + v2b, I(i) + oi, zero) for i in range(w)])
        f["generic_shift_left"] = z3.And(*[b(gl, i) == z3.If(z3.UGE(I(i), oi), sel(vb, I(i) - oi, zero), sel(v2b, I(w) + I(i) - oi, zero)) for i in range(w)])
        for name, post in f.items():
            ctx.prove(f"{name}.offset_le_width", post, assume=[z3.ULE(oi, I(w))], hw=hw)
        if cfg.get("off") == "narrow":
            ctx.cover("off=w-1", oi == w - 1)
            return
        for name in ("shift_right", "shift_left", "rotate_right", "rotate_left"):
            ctx.prove(f"{name}.offset_gt_width", f[name], assume=[z3.UGT(oi, I(w))], hw=hw)
        ctx.cover("off=w", oi == w)
        ctx.cover("off>w", z3.UGT(oi, I(w)))
    elif cfg["fn"] == "scalar_const":
        # constant offsets 0..w given as Python ints
        w = cfg["w"]
        v = Signal(signed(w) if cfg.get("signed") else w, name="v")
        ph = Signal(1, name="ph")
        ks = list(range(w + 1))
        c = Comb([v, ph], lambda m: [x for k in ks for x in (S.shift_left(v, k, ph), S.shift_right(v, k, ph), S.rotate_left(v, k), S.rotate_right(v, k))])
        hw = ctx.use(c.hw)
        vv, pp = c.ins
        b = lambda x, i: z3.Extract(i, i, x)
        vb = [b(vv, i) for i in range(w)]
        for n_, k in enumerate(ks):
            sl, sr, rl, rr = c.outs[4 * n_ : 4 * n_ + 4]
            ctx.prove(f"shift_left.const_offset[{k}]", z3.And(*[b(sl, i) == (vb[i - k] if i - k >= 0 else pp) for i in range(w)]), hw=hw)
            ctx.prove(f"shift_right.const_offset[{k}]", z3.And(*[b(sr, i) == (vb[i + k] if i + k < w else pp) for i in range(w)]), hw=hw)
            ctx.prove(f"rotate_left.const_offset[{k}]", z3.And(*[b(rl, i) == vb[(i - k) % w] for i in range(w)]), hw=hw)
            ctx.prove(f"rotate_right.const_offset[{k}]", z3.And(*[b(rr, i) == vb[(i + k) % w] for i in range(w)]), hw=hw)
    else:
        n, shp = cfg["n"], cfg["shape"]
        lay = data.StructLayout({"a": 1, "b": signed(2)})
        mk = {
            "u2": lambda i: Signal(2, name=f"d{i}"),
            "s2": lambda i: Signal(signed(2), name=f"d{i}"),
            "struct": lambda i: Signal(lay, name=f"d{i}"),
            "enum": lambda i: Signal(Kind, name=f"d{i}"),
        }[shp]
        d = [mk(i) for i in range(n)]
        phs = mk(99)
        off = Signal(range(n) if cfg.get("off") == "narrow" else range(n + 1), name="off")
        res = {}

        def fn(m):
            res["sr"] = S.shift_vec_right(d, off, phs)
            res["sl"] = S.shift_vec_left(d, off, phs)
            res["rr"] = S.rotate_vec_right(d, off)
            res["rl"] = S.rotate_vec_left(d, off)
            res["sr0"] = S.shift_vec_right(d, off)
            res["sl0"] = S.shift_vec_left(d, off, None)
            outs = []
            for k in ("sr", "sl", "rr", "rl", "sr0", "sl0"):
                outs.extend(res[k])
            return outs

        c = Comb(d + [phs, off], fn)
        hw = ctx.use(c.hw)
        dd = c.ins[:n]
        pp, oo = c.ins[n], c.ins[n + 1]
        oi = I(oo)
        outs = c.outs
        sr, sl, rr, rl, sr0, sl0 = [outs[k * n : (k + 1) * n] for k in range(6)]
        zero = z3.BitVecVal(0, dd[0].size())
        A = [z3.ULE(oi, I(n))]
        ctx.prove("shift_vec_right", z3.And(*[sr[i] == sel(dd, I(i) + oi, pp) for i in range(n)]), assume=A, hw=hw)
        ctx.prove("shift_vec_left", z3.And(*[sl[i] == sel(dd, I(i) - oi, pp) for i in range(n)]), assume=A, hw=hw)
        ctx.prove("shift_vec_right.default_placeholder", z3.And(*[sr0[i] == sel(dd, I(i) + oi, zero) for i in range(n)]), assume=A, hw=hw)
        ctx.prove("shift_vec_left.default_placeholder", z3.And(*[sl0[i] == sel(dd, I(i) - oi, zero) for i in range(n)]), assume=A, hw=hw)
        ctx.prove("rotate_vec_right", z3.And(*[rr[i] == sel(dd, z3.URem(I(i) + oi, I(n)), zero) for i in range(n)]), assume=A, hw=hw)
        ctx.prove("rotate_vec_left", z3.And(*[rl[i] == sel(dd, z3.URem(I(i) + I(4 * n) - oi, I(n)), zero) for i in range(n)]), assume=A, hw=hw)
        # structured results keep their shape (Python-level postcondition)
        if shp in ("struct", "enum"):
            want = lay if shp == "struct" else Kind
            ok = all((r.shape() == want) if hasattr(r, "shape") else False for k in res for r in res[k])
            ctx.prove("vector.result_shape", z3.BoolVal(bool(ok)))
        ctx.cover("off=n", z3.And(oi == n)) if cfg.get("off") != "narrow" else ctx.cover("off=n-1", z3.And(oi == n - 1))


def _patch_generic():
    from amaranth import Cat

    def bad(value1, value2, offset):
        value1 = Value.cast(value1)
        value2 = Value.cast(value2)
        # fills from the *top* of value2 instead of its bottom
        return Cat(value1, Cat(*reversed(value2))).bit_select(offset, len(value1))

    S.generic_shift_right = bad


CANARIES = [
    {"name": "fill_reversed", "cfg": {"fn": "scalar", "w": 4}, "patch": _patch_generic, "expect": r"rotate_right|generic_shift_right"},
    {"name": "fill_reversed_vec", "cfg": {"fn": "vector", "n": 3, "shape": "u2"}, "patch": _patch_generic, "expect": r"rotate_vec"},
]
