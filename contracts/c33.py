"""C33 — the event log captures and decodes events faithfully (mixed: netlist proof + bounded run-time contracts).

P-prog (hardware clause): designs with EventSource.emit(m, ev, when=...) placed at top level of a transaction body, in
  If/Elif/Else branches, Switch cases, FSM states, inside a called method, and top_emit: for all inputs the registered
  trigger equals  run and enclosing conditions and (when != 0)  (top_emit: when != 0 only), and the registered dynamic
  fields are the emitted values (unsigned, signed, enum-shaped) under their own names, statics stored raw. With the event
  log disabled nothing is registered and no signal is added.
B (bounded, run-time contracts on the real Python code):
  capture process on the simulator stub: records == [(ticks, site, fields) | trigger] in site order per cycle, for every
  trigger/field history of <= 3 sites x 3 cycles; GeneratedEvLogSampler packed vs per-site triggers agree for every
  trigger vector of <= 4 sites; EventLog.save/load, EventLogWriter + EventLogReader, EventDecoder round-trip for all logs
  of <= 3 records over an enumerated value set (int, bool, enum, signed, statics incl. enums); EventConsumer.run dispatches
  a stable sort by cycle, each record exactly once, for all permutations of <= 5 records.
Not decided: that Amaranth's simulator delivers samples as the stub assumes (trusted dependency)."""

import enum
import itertools
import os
import shutil
import tempfile

import z3
from amaranth import Elaboratable, Signal, signed, Value
from amaranth.hdl import _ast as A
from amaranth.lib import enum as aenum
from transactron import TModule, Method, Transaction, def_method
from transactron.core.context import TransactronContextElaboratable
from transactron.evlog import Event, event, Static, EventSource, EvLogKey, EvLogEnabledKey
from transactron.evlog.log import EventLog, EventLogWriter, EventLogReader, EventDecoder
from transactron.evlog.schema import schema_from_records, EvLogSchema, EventSiteSchema, EventFieldSchema, GeneratedEvLog, EventSiteLocation
from transactron.evlog.sampler import GeneratedEvLogSampler
from transactron.evlog.consumer import EventConsumer, handles
from transactron.evlog.emit import EmittedEvent
from transactron.utils.dependencies import DependencyContext, DependencyManager

from engine.hw import HW, Recorder
from engine.simstub import StubSim, EndOfScript, drive

PROPERTY = "C33"
LEVEL = "proof"
ENGINE = "E-HW + E-RT"
TECHNIQUE = "emission-site triggers/fields proved on the netlist of generated designs (z3, all inputs); capture/sampler/serialisation/consumer by run-time contracts over exhaustively enumerated small histories (bounded)"
ASSUMPTIONS = [
    "hardware clause: bounded over the emission-site placements of the harness design, proved for all inputs per design",
    "Python-side clauses are bounded stand-ins (<= 3 sites x 3 cycles; <= 4 sites; <= 3 records; permutations of <= 5 records), never counted as proved",
    "Amaranth's simulator is assumed to deliver samples as the stub does (trusted dependency)",
]


class Kind(aenum.Enum, shape=2):
    A = 0
    B = 1
    C = 3


class PyKind(enum.Enum):
    X = 0
    Y = 1
    Z = 3


@event("verif.c33.ev")
class Ev(Event):
    x: int
    s: int
    k: PyKind
    lane: Static[int]
    unit: Static[PyKind]


@event("verif.c33.other")
class Other(Event):
    flag: bool


@event("verif.c33.clash")
class Clash(Event):
    """reuses the field names of Ev with other annotations (a decoder that keys anything by field name alone mixes them up)"""

    x: bool
    k: int
    lane: Static[PyKind]


def roundtrip_one(schema, raws, tmp):
    log = EventLog(schema)
    for r in raws:
        log.emit_raw(*r)
    fn = os.path.join(tmp, "a.jsonl")
    log.save(fn)
    l2 = EventLog.load(fn)
    fn2 = os.path.join(tmp, "b.jsonl")
    with EventLogWriter(fn2, schema) as w:
        for r in raws:
            w.emit_raw(*r)
    rd = EventLogReader(fn2)
    streamed = list(rd)
    exp_events = []
    for c, site, vals in raws:
        if site == 0:
            exp_events.append((c, "srcA", Ev(x=vals[0], s=vals[1], k=PyKind(vals[2]), lane=1, unit=PyKind.Z)))
        elif site == 1:
            exp_events.append((c, "srcB", Other(flag=bool(vals[0]))))
        else:
            exp_events.append((c, "srcC", Clash(x=bool(vals[0]), k=vals[1], lane=PyKind.Z)))
    got_a = [(e.cycle, e.source_name, e.event) for e in l2.decoded()]
    got_b = [(e.cycle, e.source_name, e.event) for e in streamed]
    got_c = [(e.cycle, e.source_name, e.event) for e in log.decoded()]
    ok = got_a == exp_events and got_b == exp_events and got_c == exp_events and l2.raw == [(c, s, list(v)) for c, s, v in raws] and l2.schema == schema and rd.schema == schema
    ok = ok and all(type(e[2].k) is PyKind and type(e[2].unit) is PyKind for e in got_a if isinstance(e[2], Ev)) and all(type(e[2].flag) is bool for e in got_a if isinstance(e[2], Other))
    ok = ok and all(type(e[2].x) is bool and type(e[2].k) is int and type(e[2].lane) is PyKind for g in (got_a, got_b, got_c) for e in g if isinstance(e[2], Clash))
    ok = ok and all(type(e[2].x) is int and type(e[2].lane) is int for g in (got_a, got_b, got_c) for e in g if isinstance(e[2], Ev))
    return ok, got_a, got_b


def configs(tier):
    return [{"part": "hw", "enabled": True}, {"part": "hw", "enabled": False}, {"part": "capture"}, {"part": "sampler"}, {"part": "roundtrip"}, {"part": "consumer"}]


class EmitDesign(Elaboratable):
    def __init__(self):
        self.ins = []
        self.sites = []  # (kind 'emit'|'top', body run signal or None, cond fn(hw)->z3, when sig, field sigs, statics)
        self.src = EventSource("verif.src")

    def inp(self, name, shape=1):
        s = Signal(shape, name=name)
        self.ins.append(s)
        return s

    def site(self, m, body, cond, top=False):
        n = len(self.sites)
        when = self.inp(f"when{n}", 2)
        x, sg, k = self.inp(f"x{n}", 3), self.inp(f"s{n}", signed(2)), self.inp(f"k{n}", Kind)
        ev = Ev.hw(x=x, s=sg, k=k, lane=n, unit=PyKind.Z if n % 2 else PyKind.Y)
        if top:
            self.src.top_emit(ev, when=when)
        else:
            self.src.emit(m, ev, when=when)
        self.sites.append(("top" if top else "emit", body, cond, when, {"x": x, "s": sg, "k": k}, {"lane": n, "unit": (PyKind.Z if n % 2 else PyKind.Y).value}))

    def elaborate(self, platform):
        m = TModule()
        c1, c2, sel, mrdy, trdy = self.inp("c1"), self.inp("c2"), self.inp("sel", 2), self.inp("mrdy"), self.inp("trdy")
        self.M = Method(name="M", i=[("a", 1)])
        b = lambda s: (lambda hw: hw.b(s))
        T = lambda hw: z3.BoolVal(True)

        @def_method(m, self.M, ready=mrdy)
        def _(a):
            self.site(m, self.M, T)
            with m.If(c2):
                self.site(m, self.M, b(c2))

        self.T = Transaction(name="T")
        with self.T.body(m, ready=trdy):
            self.site(m, self.T, T)
            with m.If(c1):
                self.site(m, self.T, b(c1))
                self.M(m, a=1)
            with m.Elif(c2):
                self.site(m, self.T, lambda hw: z3.And(z3.Not(hw.b(c1)), hw.b(c2)))
            with m.Else():
                self.site(m, self.T, lambda hw: z3.And(z3.Not(hw.b(c1)), z3.Not(hw.b(c2))))
            with m.Switch(sel):
                with m.Case(1):
                    self.site(m, self.T, lambda hw: hw.sig(sel) == 1)
                with m.Case("1-"):
                    self.site(m, self.T, lambda hw: z3.Extract(1, 1, hw.sig(sel)) == 1)
                with m.Default():
                    self.site(m, self.T, lambda hw: hw.sig(sel) == 0)
            self.site(m, None, T, top=True)
        self.site(m, None, T, top=True)
        return m


def trig_term(hw, rec):
    t = rec.trigger
    if isinstance(t, A.Operator) and t.operator in ("b", "r|") and len(t.operands) == 1:
        t = t.operands[0]
    return hw.sig(t) != 0


def run(cfg, ctx):
    part = cfg["part"]
    if part == "hw":
        dm = DependencyManager()
        if cfg["enabled"]:
            dm.add_dependency(EvLogEnabledKey(), True)
        d = EmitDesign()
        top = TransactronContextElaboratable(d, dependency_manager=dm)
        from amaranth.hdl._ir import Fragment

        rec = Recorder(())
        with rec:
            frag = Fragment.get(top, None)
        try:
            recs = dm.get_dependency(EvLogKey())
        except KeyError:
            recs = []
        outs = [d.T.run, d.M.run]
        import re

        nm = lambda s: Value.cast(s).name
        is_ev = lambda s: re.match(r"^(when|x|s|k)\d+$", nm(s)) is not None
        hw = HW(frag, d.ins if cfg["enabled"] else [s for s in d.ins if not is_ev(s)], outs + ([r.trigger.operands[0] for r in recs if isinstance(r.trigger, A.Operator)] if recs else []))
        hw.rec = rec
        ctx.use(hw)
        if not cfg["enabled"]:
            ctx.structural("disabled.no_record_registered", len(recs) == 0, "dependency manager inspection", detail=f"{len(recs)} records")
            unused = [nm(s) for s in d.ins if is_ev(s) and hw.ts.has(Value.cast(s))]
            ctx.structural("disabled.no_signal_added", not unused and not any(n == "trigger" for n in (sg.name for sg in hw.nl.signals)), "netlist inspection", detail=f"event inputs present in the netlist: {unused}")
            ctx.prove("disabled.design_still_runs", z3.Implies(z3.And(hw.b(d.ins[4]), hw.b(d.ins[3])), z3.BoolVal(True)), hw=hw)
            return
        ctx.structural("one_record_per_site_in_order", len(recs) == len(d.sites) and all(r.statics["lane"] == i for i, r in enumerate(recs)), "dependency manager inspection", detail=f"{len(recs)} records for {len(d.sites)} sites")
        for i, (r, (kind, body, cond, when, fields, statics)) in enumerate(zip(recs, d.sites)):
            trig = trig_term(hw, r)
            wnz = hw.sig(when) != 0
            if kind == "top":
                ctx.prove(f"site{i}.top_emit.trigger_is_when", trig == wnz, hw=hw)
            else:
                ctx.prove(f"site{i}.emit.trigger_is_run_and_conditions_and_when", trig == z3.And(hw.b(body.run), cond(hw), wnz), hw=hw)
            ctx.prove(f"site{i}.fields_are_emitted_values", z3.And(*[hw.sig(r.fields[n]) == hw.sig(fields[n]) for n in fields]), hw=hw)
            ok = list(r.fields.keys()) == ["x", "s", "k"] and r.statics == statics and r.event_type is Ev and r.source_name == "verif.src"
            ctx.structural(f"site{i}.names_statics_and_type", ok, "record inspection", detail=repr((list(r.fields), r.statics)))
        sch = schema_from_records(recs)
        shapes_ok = all([(f.name, f.width, f.signed) for f in s.fields] == [("x", 3, False), ("s", 2, True), ("k", 2, False)] for s in sch.sites)
        ctx.structural("schema.field_widths_and_signedness", shapes_ok, "schema inspection")
        ctx.cover("some_emit", z3.Or(*[trig_term(hw, r) for r in recs]), hw=hw)
        return
    ctx.functions.update({("_make_evlog_process", "transactron/testing/evlog.py"), ("GeneratedEvLogSampler.sample", "transactron/evlog/sampler.py"), ("EventLog.save", "transactron/evlog/log.py"),
                          ("EventLog.load", "transactron/evlog/log.py"), ("EventDecoder.decode", "transactron/evlog/log.py"), ("Event.from_raw", "transactron/evlog/event.py"),
                          ("EventConsumer.run", "transactron/evlog/consumer.py"), ("EventLogReader.__iter__", "transactron/evlog/log.py"), ("EventLogWriter.emit_raw", "transactron/evlog/log.py")})
    if part == "capture":
        from transactron.testing.evlog import _make_evlog_process
        from transactron.testing.tick_count import TicksKey

        fails, n = [], 0
        for nsites in (1, 2, 3):
            trigs = [Signal(name=f"t{i}") for i in range(nsites)]
            flds = [[Signal(2, name=f"f{i}_{j}") for j in range(i % 2 + 1)] for i in range(nsites)]
            recs = [EmittedEvent("src", Other, ("f", i), t.any(), {f"f{j}": f for j, f in enumerate(fl)}, {}) for i, (t, fl) in enumerate(zip(trigs, flds))]
            ticks = Signal(64, name="ticks")
            ncyc = 3
            for tv in itertools.product(range(1 << nsites), repeat=ncyc):
                for fpat in (0, 1):
                    n += 1
                    dm = DependencyManager()
                    dm.add_dependency(TicksKey(), ticks)

                    def world(t, env):
                        if t >= ncyc:
                            raise EndOfScript()
                        env[id(ticks)] = 10 + t
                        for i in range(nsites):
                            env[id(trigs[i])] = (tv[t] >> i) & 1
                            for j, f in enumerate(flds[i]):
                                env[id(f)] = (t + i + j + fpat) % 4

                    class Sink:
                        def __init__(self):
                            self.r = []

                        def emit_raw(self, cycle, site, values):
                            self.r.append((cycle, site, list(values)))

                    sink = Sink()
                    with DependencyContext(dm):
                        drive(_make_evlog_process(sink, recs)(StubSim(world)))
                    exp = [(10 + t, i, [(t + i + j + fpat) % 4 for j in range(len(flds[i]))]) for t in range(ncyc) for i in range(nsites) if (tv[t] >> i) & 1]
                    if sink.r != exp:
                        fails.append({"sites": nsites, "triggers": tv, "got": sink.r, "expected": exp})
        ctx.bounded_result("capture.records_exactly_the_triggered_sites", n, n, fails, rule="every trigger history of 1-3 sites over 3 cycles x 2 field patterns; distinct by construction",
                           samples=[{"sites": 2, "triggers": [1, 3, 0]}], exhaustive=True)
    elif part == "sampler":
        fails, n = [], 0
        for nsites in (0, 1, 2, 3, 4):
            for packed_mode in (True, False):
                for tv in range(1 << nsites):
                    n += 1
                    vals = {("trig", i): (tv >> i) & 1 for i in range(nsites)}
                    vals.update({("f", i, j): (3 * i + j + 1) % 7 for i in range(nsites) for j in range(i % 3)})
                    vals[("packed",)] = tv
                    gen = GeneratedEvLog(schema=EvLogSchema(sites=[]), site_locations=[EventSiteLocation(trigger=["trig", str(i)], fields=[["f", str(i), str(j)] for j in range(i % 3)]) for i in range(nsites)],
                                         triggers_location=["packed"] if (packed_mode and nsites) else None)
                    reads = []

                    def resolve(handle):
                        key = tuple(int(h) if h.isdigit() else h for h in handle)
                        return lambda key=key: (reads.append(key), vals[key])[1]

                    class Sink:
                        def __init__(self):
                            self.r = []

                        def emit_raw(self, cycle, site, values):
                            self.r.append((cycle, site, list(values)))

                    sink = Sink()
                    GeneratedEvLogSampler(gen, resolve).sample(7, sink)
                    exp = [(7, i, [(3 * i + j + 1) % 7 for j in range(i % 3)]) for i in range(nsites) if (tv >> i) & 1]
                    if sink.r != exp:
                        fails.append({"sites": nsites, "packed": packed_mode, "triggers": tv, "got": sink.r, "expected": exp})
        ctx.bounded_result("sampler.packed_and_per_site_agree_with_spec", n, n, fails, rule="every trigger vector of 0-4 sites, packed and per-site trigger modes", samples=[{"sites": 3, "triggers": 5}], exhaustive=True)
    elif part == "roundtrip":
        scratch = os.path.join(os.path.dirname(os.path.dirname(os.path.abspath(__file__))), "scratch")
        os.makedirs(scratch, exist_ok=True)  # scratch/ is not committed: absent after a fresh restore
        tmp = tempfile.mkdtemp(prefix="c33-", dir=scratch)
        fails, n = [], 0
        try:
            schema = EvLogSchema(sites=[
                EventSiteSchema("srcA", "verif.c33.ev", ("file.py", 3), [EventFieldSchema("x", 3), EventFieldSchema("s", 2, True), EventFieldSchema("k", 2)], {"lane": 1, "unit": 3}),
                EventSiteSchema("srcB", "verif.c33.other", ("file.py", 9), [EventFieldSchema("flag", 1)], {}),
                EventSiteSchema("srcC", "verif.c33.clash", ("file.py", 12), [EventFieldSchema("x", 1), EventFieldSchema("k", 2)], {"lane": 3}),
            ], metadata={"cfg": {"w": 2}})
            v0 = [[0, 0, 0], [5, -2, 3], [7, 1, 1]]
            v1 = [[0], [1]]
            v2 = [[1, 3], [0, 2]]
            recs_space = [(c, 0, v) for c in (0, 2) for v in v0] + [(c, 1, v) for c in (1, 2) for v in v1] + [(c, 2, v) for c in (1,) for v in v2]
            for L in (0, 1, 2, 3):
                for raws in itertools.product(recs_space, repeat=L):
                    n += 1
                    try:
                        ok, got_a, got_b = roundtrip_one(schema, raws, tmp)
                    except Exception as e:  # noqa: BLE001  (the functions under contract raised: the postcondition says they return the events)
                        ok, got_a, got_b = False, f"raised {type(e).__name__}: {e}", ""
                    if not ok:
                        fails.append({"raw": list(raws), "loaded": repr(got_a)[:300], "streamed": repr(got_b)[:300]})
                    continue
        finally:
            shutil.rmtree(tmp, ignore_errors=True)
        ctx.bounded_result("log.save_load_stream_decode_roundtrip", n, n, fails, rule="every log of 0-3 records over 12 distinct raw records (3 sites, two event types sharing field names with different annotations; unsigned, signed negative, enum and bool values)",
                           samples=[{"raw": [[0, 0, [5, -2, 3]], [1, 1, [1]]]}], exhaustive=True)
    else:
        fails, n = [], 0

        class Cons(EventConsumer):
            def __init__(self):
                self.seen = []

            @handles(Ev)
            def on_ev(self, rec):
                self.seen.append(("ev", rec.cycle, id(rec)))

            def on_unhandled(self, rec):
                self.seen.append(("unhandled", rec.cycle, id(rec)))

        from transactron.evlog.log import DecodedEvent

        site = EventSiteSchema("s", "verif.c33.ev", ("f", 1), [], {})
        base = [DecodedEvent(cycle=c, site=site, event=(Ev(x=i, s=0, k=PyKind.X, lane=0, unit=PyKind.X) if i % 2 == 0 else Other(flag=True))) for i, c in enumerate([3, 1, 3, 0, 1])]
        for L in range(0, 6):
            for perm in itertools.permutations(base[:L]):
                n += 1
                c = Cons()
                c.run(iter(perm))
                exp = [("ev" if isinstance(r.event, Ev) else "unhandled", r.cycle, id(r)) for r in sorted(perm, key=lambda r: r.cycle)]
                if c.seen != exp:
                    fails.append({"order": [r.cycle for r in perm], "seen": [(k, cy) for k, cy, _ in c.seen]})
        ctx.bounded_result("consumer.stable_cycle_order_each_record_once", n, n, fails, rule="every permutation of the first 0-5 of five records (cycles 3,1,3,0,1; alternating handled/unhandled types)", samples=[{"cycles": [3, 1, 3]}], exhaustive=True)


def _patch_emit():
    import transactron.evlog.emit as EM
    import inspect, textwrap

    src = textwrap.dedent(inspect.getsource(EM.EventSource.emit))
    old = "m.d.comb += trigger.eq(Value.cast(when).any())"
    assert old in src
    src = src.replace(old, "m.d.comb += trigger.eq(Value.cast(when)[0])")
    ns = dict(EM.__dict__)
    exec(src, ns)
    EM.EventSource.emit = ns["emit"]


def _patch_sampler():
    import transactron.evlog.sampler as SM
    import inspect, textwrap

    src = textwrap.dedent(inspect.getsource(SM.GeneratedEvLogSampler.sample))
    old = "if packed >> site & 1:"
    assert old in src
    src = src.replace(old, "if packed >> site & 1 and (site == 0 or not packed & 1):")
    ns = dict(SM.__dict__)
    exec(src, ns)
    SM.GeneratedEvLogSampler.sample = ns["sample"]


def _patch_consumer():
    import transactron.evlog.consumer as CO

    def run(self, records):
        for rec in sorted(records, key=lambda rec: rec.cycle, reverse=True)[::-1]:
            self.dispatch(rec)

    CO.EventConsumer.run = run


CANARIES = [
    {"name": "when_truncated_to_its_low_bit", "cfg": {"part": "hw", "enabled": True}, "patch": _patch_emit, "expect": r"trigger_is_run"},
    {"name": "packed_sampler_drops_sites_after_site0", "cfg": {"part": "sampler"}, "patch": _patch_sampler, "expect": r"sampler\."},
    {"name": "consumer_sort_not_stable", "cfg": {"part": "consumer"}, "patch": _patch_consumer, "expect": r"consumer\."},
]
