"""Representation invariants / abstraction functions of library components that other contracts reuse."""

import z3

from spec.seq import N, Seq, select, lt, le, nmod


class BasicFifoRep:
    """wf and queue view of a real BasicFifo inside a harness (see contracts/c14.py)."""

    def __init__(self, hw, rec, fifo):
        from transactron.lib.allocators import CircularAllocator

        self.hw, self.fifo = hw, fifo
        loc = rec.locals_of(fifo)
        self.alloc = loc["allocator"]
        self.rdport = loc["data_rdport"]
        ts = hw.ts
        from amaranth import Value

        self.zero_width = len(Value.cast(self.rdport.data)) == 0
        if not self.zero_width:
            self.midx = ts.memory_of(self.rdport.data)
            self.rpk = ts.readport_key(self.rdport.data)
        self.depth = fifo.depth

    def rep(self, nxt):
        hw, ts = self.hw, self.hw.ts
        g = (lambda s: hw.nxt(s)) if nxt else (lambda s: hw.sig(s))
        a = self.alloc
        start = g(a.start_idx) if len(a.start_idx) else None
        end = g(a.end_idx) if len(a.end_idx) else None
        if self.zero_width:
            return start, end, g(a.allocated), None, None
        rows = ts.mem_next_rows[self.midx] if nxt else ts.mem_rows(self.midx)
        rp = ts.next[self.rpk] if nxt else ts.state[self.rpk]
        return start, end, g(a.allocated), rows, rp

    def wf(self, nxt=False):
        start, end, allocated, rows, rp = self.rep(nxt)
        d = self.depth
        c = [le(allocated, d)]
        if start is not None:
            c += [lt(start, d), lt(end, d), N(end) == nmod(N(start) + N(allocated), d)]
        if rows is not None:
            c.append(z3.Implies(N(allocated) != 0, rp == select(rows, N(start))))
        return z3.And(*c)

    def view(self, nxt=False):
        start, end, allocated, rows, rp = self.rep(nxt)
        if rows is None:
            return Seq(N(allocated), [None] * self.depth)
        return Seq(N(allocated), [select(rows, nmod(N(start) + k, self.depth)) for k in range(self.depth)])


class ForwarderRep:
    def __init__(self, hw, rec, fwd):
        loc = rec.locals_of(fwd)
        self.hw, self.reg, self.reg_valid = hw, loc["reg"], loc["reg_valid"]

    def view(self, nxt=False):
        hw = self.hw
        g = (lambda s: hw.nxt(s)) if nxt else (lambda s: hw.sig(s))
        r = g(self.reg)
        return Seq(N(g(self.reg_valid)), [r, r])
