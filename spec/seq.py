"""Ghost specification library: bounded sequences, naturals as wide bit-vectors.

Natural numbers are NW-bit bit-vectors (no arithmetic in the contracts comes near 2**NW, and each use is
on values bounded by small capacities, so the vectors behave as mathematical integers)."""

import z3

NW = 16


def N(x):
    """natural number from a python int or an (unsigned) z3 bit-vector"""
    if isinstance(x, int):
        return z3.BitVecVal(x, NW)
    if x is None:
        return z3.BitVecVal(0, NW)
    if z3.is_bool(x):
        return z3.If(x, z3.BitVecVal(1, NW), z3.BitVecVal(0, NW))
    if x.size() == NW:
        return x
    assert x.size() < NW
    return z3.ZeroExt(NW - x.size(), x)


def lt(a, b):
    return z3.ULT(N(a), N(b))


def le(a, b):
    return z3.ULE(N(a), N(b))


def nmin(a, b):
    a, b = N(a), N(b)
    return z3.If(z3.ULT(a, b), a, b)


def nmod(a, m):
    """a mod m for a python int m > 0"""
    return z3.URem(N(a), N(m))


def ndiv(a, m):
    return z3.UDiv(N(a), N(m))


def select(items, idx, default=None):
    """items[idx] for symbolic natural idx; `default` (or items[-1]) when out of range."""
    idx = N(idx)
    r = default if default is not None else items[-1]
    for i in reversed(range(len(items))):
        r = z3.If(idx == i, items[i], r)
    return r


def bit(x, i):
    return z3.Extract(i, i, x) == 1


def popcount(x):
    return sum_n([bit(x, i) for i in range(x.size())])


def sum_n(bools):
    r = N(0)
    for b in bools:
        r = r + N(b)
    return r


def at_most_one(bools):
    bools = list(bools)
    return z3.And(*[z3.Not(z3.And(bools[i], bools[j])) for i in range(len(bools)) for j in range(i + 1, len(bools))]) if len(bools) > 1 else z3.BoolVal(True)


class Seq:
    """Bounded sequence: length n (natural) and cap element terms; only the first n are meaningful."""

    def __init__(self, n, elems):
        self.n = N(n)
        self.e = list(elems)
        self.cap = len(self.e)

    def __getitem__(self, k):
        if isinstance(k, int):
            return self.e[k]
        return select(self.e, k)

    def drop(self, k):
        """remove the k oldest (k natural, k <= n)"""
        k = N(k)
        return Seq(self.n - k, [select(self.e, N(i) + k) for i in range(self.cap)])

    def drop_last(self, k=1):
        return Seq(self.n - N(k), self.e)

    def append(self, xs, cnt):
        """append the first cnt of xs (python list of terms)"""
        cnt = N(cnt)
        xs = list(xs)
        if not xs:
            return Seq(self.n, self.e)
        new = []
        for i in range(self.cap):
            new.append(z3.If(z3.ULT(N(i), self.n), self.e[i], select(xs, N(i) - self.n)))
        return Seq(self.n + cnt, new)

    def append1(self, x, cond):
        return self.append([x], N(cond))

    def last(self):
        return select(self.e, self.n - 1)

    def set_last(self, x):
        return Seq(self.n, [z3.If(self.n - 1 == i, x, self.e[i]) for i in range(self.cap)])

    def eq(self, other):
        assert self.cap == other.cap
        cs = [self.n == other.n]
        for i in range(self.cap):
            cs.append(z3.Implies(z3.ULT(N(i), self.n), self.e[i] == other.e[i]))
        return z3.And(*cs)

    @staticmethod
    def ite(c, a, b):
        return Seq(z3.If(c, a.n, b.n), [z3.If(c, x, y) for x, y in zip(a.e, b.e)])

    @staticmethod
    def empty_like(a):
        return Seq(N(0), a.e)
