"""Transactron component harness: the real component under the real TransactionManager, every provided
method exposed through the library's own AdapterTrans (free `en`, free arguments), every required
method defined through the library's own Adapter (free readiness, free results)."""

import z3
from amaranth import Elaboratable, Module, Signal
from amaranth.hdl import _ast
from transactron.core.context import TransactronContextElaboratable
from transactron.lib.adapters import Adapter, AdapterTrans

from .hw import HW


class _Top(Elaboratable):
    def __init__(self, dut, provided, required, extra_submodules):
        self.dut = dut
        self.provided = provided
        self.required = required
        self.extra = extra_submodules
        self.ad = {}

    def elaborate(self, platform):
        m = Module()
        if self.dut is not None:
            m.submodules.dut = self.dut
        for name, meth in self.provided.items():
            self.ad[name] = a = AdapterTrans.create(meth)
            m.submodules["ad_" + name] = a
        for name, ad in self.required.items():
            m.submodules["req_" + name] = ad
        for name, sub in self.extra.items():
            m.submodules[name] = sub
        return m


class MethodIO:
    """z3 view of one method seen through its adapter."""

    def __init__(self, hw, adapter, method):
        self.hw = hw
        self.adapter = adapter
        self.method = method
        self.en = hw.b(adapter.en)
        self.done = hw.b(adapter.done)
        self.run = hw.b(method.run) if hw.ts.has(method.run) else self.done
        self.ready = hw.b(method.ready) if hw.ts.has(method.ready) else None

    def _v(self, view, field):
        v = view
        for f in field:
            v = v[f]
        return self.hw.sig(v)

    def arg(self, *field):
        """Argument (data_in of an AdapterTrans; data_out of an Adapter) or one of its fields."""
        view = self.adapter.data_in if isinstance(self.adapter, AdapterTrans) else self.adapter.data_out
        return self._v(view, field)

    def res(self, *field):
        """Result (data_out of an AdapterTrans; data_in of an Adapter)."""
        view = self.adapter.data_out if isinstance(self.adapter, AdapterTrans) else self.adapter.data_in
        return self._v(view, field)


class TH:
    def __init__(self, dut, provided, required=None, capture=(), extra_inputs=(), extra_outputs=(),
                 extra_submodules=None, manager=None, capture_funcs=("elaborate",), dependency_manager=None):
        """provided: {name: Method of the dut}; required: {name: Adapter whose iface the dut calls}."""
        required = required or {}
        self.dut = dut
        self.top_inner = _Top(dut, provided, required, extra_submodules or {})
        kwargs = {}
        if manager is not None:
            kwargs["transaction_manager"] = manager
        if dependency_manager is not None:
            kwargs["dependency_manager"] = dependency_manager
        self.top = TransactronContextElaboratable(self.top_inner, **kwargs)
        # adapters are created during elaboration, so the port list is computed lazily
        inputs, outputs = [], []

        class _Ports:
            pass

        from amaranth.hdl._ir import Fragment
        from .hw import Recorder

        # elaborate once here (HW would do the same) to get the adapters, then hand the fragment over
        rec = Recorder(capture, capture_funcs)
        with rec:
            frag = Fragment.get(self.top, None)
        for a in list(self.top_inner.ad.values()) + list(required.values()):
            inputs.append(a.en)
            outputs.append(a.done)
            din = _ast.Value.cast(a.data_in)
            dout = _ast.Value.cast(a.data_out)
            if len(din):
                inputs.append(din)
            if len(dout):
                outputs.append(dout)
        for a in required.values():
            for arg, ret in getattr(a, "validators", []):
                inputs.append(ret)
                outputs.append(_ast.Value.cast(arg))
        inputs.extend(extra_inputs)
        outputs.extend(extra_outputs)
        self.hw = HW(frag, inputs, outputs, capture=())
        self.hw.rec = rec
        self.manager = self.top.transaction_manager
        self.m = {}
        for name, meth in provided.items():
            self.m[name] = MethodIO(self.hw, self.top_inner.ad[name], meth)
        for name, ad in required.items():
            self.m[name] = MethodIO(self.hw, ad, ad.iface)

    def locals_of(self, obj, func="elaborate"):
        return self.hw.rec.locals_of(obj, func)

    def log_records(self, min_level=None):
        """Hardware log records registered by the elaborated library code: [(record, z3 Bool trigger)].
        Only records whose trigger is a Signal of the netlist are returned with a trigger term."""
        import logging
        from amaranth.hdl import _ast as A
        from transactron.utils.logging import LogKey

        try:
            recs = self.top.manager.get_dependency(LogKey())
        except KeyError:
            recs = []
        out = []
        for r in recs:
            if min_level is not None and r.level < min_level:
                continue
            trig = None
            t = r.trigger
            if isinstance(t, A.Operator) and t.operator in ("b", "r|") and len(t.operands) == 1:
                t = t.operands[0]
            if isinstance(t, A.Signal) and self.hw.ts.has(t):
                trig = self.hw.sig(t) != 0
            out.append((r, trig))
        return out

    def sig(self, v):
        return self.hw.sig(v)

    def b(self, v):
        return self.hw.b(v)

    def nxt(self, v):
        return self.hw.nxt(v)
