"""Harness around a real Amaranth/Transactron design: elaboration, netlist, transition system,
co-simulation against Amaranth's simulator, bounded search for a failing input trace from reset."""

import hashlib
import os
import random
import sys
import time

import z3
from amaranth.hdl import _ir, _ast, _nir
from amaranth.hdl._ir import Fragment
from amaranth.sim import Simulator

from .nir2smt import TS, Unsupported

REPO = os.path.realpath(os.environ.get("VERIF_REPO", "/repo"))

# ------------------------------------------------------------------------------------------------
# profile hook: which /repo functions ran during elaboration; locals of chosen elaborate() frames


class Recorder:
    def __init__(self, capture=(), funcs=("elaborate",)):
        self.capture = tuple(capture)
        self.funcs = tuple(funcs)
        self.functions = set()  # (qualname, relative file)
        self.frames = []  # (self object, dict of locals) for captured classes, in return order

    def _prof(self, frame, event, arg):
        if event == "call":
            fn = frame.f_code.co_filename
            if fn.startswith(REPO + "/transactron"):
                self.functions.add((frame.f_code.co_qualname, fn[len(REPO) + 1 :]))
        elif event == "return" and self.capture and frame.f_code.co_name in self.funcs:
            slf = frame.f_locals.get("self")
            if isinstance(slf, self.capture):
                self.frames.append((slf, dict(frame.f_locals), frame.f_code.co_name))

    def __enter__(self):
        self._old = sys.getprofile()
        sys.setprofile(self._prof)
        return self

    def __exit__(self, *a):
        sys.setprofile(self._old)

    def locals_of(self, obj, func="elaborate"):
        r = [loc for (s, loc, fn) in self.frames if s is obj and fn == func]
        if len(r) != 1:
            raise KeyError(f"{func} frame of {obj!r}: {len(r)} candidates")
        return r[0]

    def locals_of_class(self, cls, func="elaborate"):
        return [(s, loc) for (s, loc, fn) in self.frames if isinstance(s, cls) and fn == func]


_sha_cache = {}


def file_sha(rel):
    if rel not in _sha_cache:
        with open(os.path.join(REPO, rel), "rb") as f:
            _sha_cache[rel] = hashlib.sha256(f.read()).hexdigest()
    return _sha_cache[rel]


class _DesignSimulator(Simulator):
    """Amaranth's simulator on an already prepared Design (the one the netlist was built from)."""

    def __init__(self, design):
        from amaranth.sim.pysim import PySimEngine

        self._design = design
        self._engine = PySimEngine(design)
        self._clocked = set()
        self._running = False


def _flat_ports(ports):
    out = []
    seen = set()
    for p in ports:
        p = _ast.Value.cast(p)
        if not isinstance(p, _ast.Signal):
            raise TypeError(f"port must be backed by a Signal, got {p!r}")
        if len(p) and id(p) not in seen:
            seen.add(id(p))
            out.append(p)
    return out


class HW:
    """top: Elaboratable (real code inside); inputs: Signals that must be free inputs;
    outputs: Signals to keep observable."""

    def __init__(self, top, inputs, outputs=(), capture=(), suffix=""):
        t0 = time.time()
        self.rec = Recorder(capture)
        with self.rec:
            self.frag = Fragment.get(top, None)
        self.inputs = _flat_ports(inputs)
        self.outputs = _flat_ports(outputs)
        self.design = self.frag.prepare(ports=self.inputs + self.outputs, hierarchy=("top",))
        self.nl = _ir.build_netlist(self.design)
        self.ts = TS(self.nl, suffix=suffix)
        self.extract_s = time.time() - t0
        top_cell = self.nl.cells[0]
        # vacuity guard: every intended free input must be a real input port of the netlist
        for s in self.inputs:
            for n in self.nl.signals[s]:
                if n.is_const or n.cell != 0:
                    raise RuntimeError(
                        f"harness error: intended free input {s.name!r} is driven inside the design "
                        f"(net {n}); it would not be universally quantified"
                    )
        self.rst = self.ts.inputs.get("rst")
        self.clk = self.ts.inputs.get("clk")
        self.in_vars = _ast.SignalDict()  # Signal -> z3 var
        for s in self.inputs:
            self.in_vars[s] = z3.simplify(self.ts.sig(s))
        known = {str(v) for v in self.in_vars.values()}
        known |= {str(self.ts.inputs[n]) for n in ("clk", "rst") if n in self.ts.inputs}
        extra = [n for n, v in self.ts.inputs.items() if str(v) not in known]
        if extra:
            raise RuntimeError(f"harness error: netlist has undeclared input ports {extra}")

    def regs_fed_by(self, signal):
        """State keys of the flip-flops that are one-cycle delays of `signal`: next == signal whenever the
        synchronous reset is low (decided by the solver, so the reset multiplexer in front of the register
        does not matter)."""
        want = self.ts.sig(signal)
        out = []
        for key, var in self.ts.state.items():
            if key[0] != "ff" or var.size() != want.size():
                continue
            s_ = z3.Solver()
            s_.add(self.no_reset(), self.ts.next[key] != want)
            if s_.check() == z3.unsat:
                out.append(key)
        return out

    # -- ghost state ------------------------------------------------------------------------------
    def ghost(self, name, width, init=0):
        """Ghost register: exists only in the z3 problem. Returns the current-value variable; set its
        next-state term with set_ghost_next (may mention the variable itself, state and inputs)."""
        key = ("ghost", name)
        assert key not in self.ts.state
        v = z3.BitVec(f"ghost_{name}{self.ts.suffix}", width)
        self.ts.state[key] = v
        self.ts.init[key] = init
        self.ts.next[key] = v
        return v

    def ghost_input(self, name, width=1):
        """Free ghost input (universally quantified every cycle; 0 in co-simulation)."""
        v = z3.BitVec(f"ghostin_{name}{self.ts.suffix}", width)
        self.ts.inputs[f"ghostin_{name}"] = v
        return v

    def set_ghost_next(self, var, term):
        for k, v in self.ts.state.items():
            if v.eq(var):
                self.ts.next[k] = term
                return
        raise KeyError(var)

    def gnext(self, var):
        for k, v in self.ts.state.items():
            if v.eq(var):
                return self.ts.next[k]
        raise KeyError(var)

    # -- convenience -------------------------------------------------------------------------
    def sig(self, v):
        return self.ts.sig(v)

    def b(self, v):
        """1-bit Amaranth value as z3 Bool."""
        t = self.ts.sig(v)
        assert t.size() == 1, t.size()
        return t == 1

    def nxt(self, v):
        return self.ts.nxt(v)

    def no_reset(self):
        return self.rst == 0 if self.rst is not None else z3.BoolVal(True)

    def stats(self):
        kinds = {}
        for c in self.nl.cells:
            kinds[type(c).__name__] = kinds.get(type(c).__name__, 0) + 1
        return {
            "cells": len(self.nl.cells),
            "state_vars": len(self.ts.state),
            "state_bits": sum(v.size() for v in self.ts.state.values()),
            "input_bits": sum(v.size() for v in self.ts.inputs.values()),
            "cell_kinds": kinds,
            "extract_s": round(self.extract_s, 3),
        }

    def functions(self):
        return sorted(self.rec.functions)

    # -- concrete execution of the transition system ------------------------------------------
    def _concrete_step(self, state, inp):
        """state: key->int, inp: z3 var name -> int. Returns (next_state, evaluator)."""
        sub = [(self.ts.state[k], z3.BitVecVal(v, self.ts.state[k].size())) for k, v in state.items()]
        for name, var in self.ts.inputs.items():
            sub.append((var, z3.BitVecVal(inp.get(str(var), 0), var.size())))

        def ev(term):
            r = z3.simplify(z3.substitute(term, *sub))
            if z3.is_bv_value(r):
                return r.as_long()
            if z3.is_true(r):
                return 1
            if z3.is_false(r):
                return 0
            raise RuntimeError(f"concrete evaluation did not reduce: {r}")

        nxt = {k: ev(self.ts.next[k]) for k in state}
        return nxt, ev

    def cosim(self, stimulus, watch=()):
        """Run Amaranth's simulator (on the same Design) and the transition system side by side.

        stimulus: list over cycles of {Signal: int} for input ports (missing -> 0).
        Compares, every cycle, every register-backed Signal of the design and every output port.
        Returns dict(mismatches=[...], observed=[per cycle {name: value}])."""
        regs = []
        for s, nets in self.nl.signals.items():
            if len(nets) and all((not n.is_const) and isinstance(self.nl.cells[n.cell], _nir.FlipFlop) for n in nets):
                regs.append(s)
        cmp_sigs = regs + list(self.outputs) + [w for w in watch if self.ts.has(w)]
        terms = [(s, self.ts.sig(s)) for s in cmp_sigs]
        state = {k: self.ts.init[k] for k in self.ts.state}
        mismatches = []
        observed = []
        sim = _DesignSimulator(self.design)
        has_clk = self.clk is not None
        if has_clk:
            sim.add_clock(1e-6)
        hw = self

        async def tb(ctx):
            nonlocal state
            for t, stim in enumerate(stimulus):
                inp = {}
                for s in hw.inputs:
                    v = int(stim.get(s, 0)) & ((1 << len(s)) - 1)
                    ctx.set(s, v)
                    inp[str(hw.in_vars[s])] = v
                nstate, ev = hw._concrete_step(state, inp)
                obs = {}
                for s, term in terms:
                    sv = ctx.get(s)
                    sv = int(sv) & ((1 << len(s)) - 1)
                    mv = ev(term)
                    obs[s.name] = sv
                    if sv != mv:
                        mismatches.append({"cycle": t, "signal": s.name, "simulator": sv, "model": mv})
                observed.append(obs)
                state = nstate
                if has_clk:
                    await ctx.tick()
                else:
                    await ctx.delay(1e-6)

        sim.add_testbench(tb)
        sim.run()
        return {"mismatches": mismatches, "observed": observed}

    def xval(self, cycles, seed):
        """Translator self-validation on seeded random stimulus."""
        rng = random.Random(seed)
        stim = []
        for _ in range(cycles):
            d = _ast.SignalDict()
            for s in self.inputs:
                r = rng.random()
                if r < 0.15:
                    d[s] = 0
                elif r < 0.3:
                    d[s] = (1 << len(s)) - 1
                else:
                    d[s] = rng.getrandbits(len(s))
            stim.append(d)
        r = self.cosim(stim)
        return {"cycles": cycles, "signals_compared": len(r["observed"][0]) if r["observed"] else 0, "mismatches": r["mismatches"][:5]}

    # -- bounded search for a failing input from reset ----------------------------------------
    def find_trace(self, bad, assume=None, max_k=12, timeout_ms=20000):
        """Search for inputs I_0..I_k from the reset state such that `assume` holds at every step and
        `bad`(S_k, I_k) holds. `bad`/`assume` are formulas over the TS state and input variables.
        Returns (k, stimulus list of {Signal: int}) or None."""
        ts = self.ts
        skeys = list(ts.state)
        svars = [ts.state[k] for k in skeys]
        ivars = list(ts.inputs.values())
        assume = assume if assume is not None else z3.BoolVal(True)
        deadline = time.time() + timeout_ms / 1000.0
        solver = z3.Solver()
        cur = [z3.BitVecVal(ts.init[k], ts.state[k].size()) for k in skeys]
        step_inputs = []
        for k in range(max_k + 1):
            iv = [z3.BitVec(f"{v}@{k}", v.size()) for v in ivars]
            step_inputs.append(iv)
            sub = list(zip(svars, cur)) + list(zip(ivars, iv))
            a_k = z3.substitute(assume, *sub)
            if self.rst is not None:
                a_k = z3.And(a_k, z3.substitute(self.rst == 0, *sub))
            bad_k = z3.substitute(bad, *sub)
            left = int((deadline - time.time()) * 1000)
            if left <= 0:
                return None
            solver.set("timeout", left)
            solver.push()
            solver.add(a_k, bad_k)
            r = solver.check()
            if r == z3.sat:
                m = solver.model()
                stim = []
                for kk in range(k + 1):
                    d = _ast.SignalDict()
                    for s in self.inputs:
                        var = self.in_vars[s]
                        idx = [i for i, v in enumerate(ivars) if v.eq(var)]
                        val = m.eval(step_inputs[kk][idx[0]], model_completion=True).as_long() if idx else 0
                        d[s] = val
                    stim.append(d)
                return k, stim
            solver.pop()
            solver.add(a_k)
            # fresh state variables for step k+1
            nxt_terms = [z3.substitute(ts.next[key], *sub) for key in skeys]
            new = [z3.BitVec(f"{v}@{k + 1}", v.size()) for v in svars]
            for nv, nt in zip(new, nxt_terms):
                solver.add(nv == nt)
            cur = new
        return None

    def port_name(self, s):
        """Unique netlist port name of a declared input signal."""
        n = str(self.in_vars[s])
        n = n[3:] if n.startswith("in_") else n
        return n[: len(n) - len(self.ts.suffix)] if self.ts.suffix else n

    def model_inputs(self, model):
        """{port name: value} of the declared inputs in a z3 model."""
        return {self.port_name(s): model.eval(self.in_vars[s], model_completion=True).as_long() for s in self.inputs}

    def model_state(self, model):
        out = {}
        for k, v in self.ts.state.items():
            out[str(v)] = model.eval(v, model_completion=True).as_long()
        return out

    def state_names(self):
        """z3 state var name -> Amaranth signal names backed by that flip-flop (for readable models)."""
        names = {}
        for s, nets in self.nl.signals.items():
            for n in nets:
                if not n.is_const and isinstance(self.nl.cells[n.cell], _nir.FlipFlop):
                    names.setdefault(f"ff{n.cell}{self.ts.suffix}", set()).add(s.name)
        return {k: sorted(v) for k, v in names.items()}
