"""Driver: ./vrun check <id> [--tier quick|thorough]   |   ./vrun replay <path>   |   ./vrun list

Exit codes: 0 held; 1 violation (VIOLATION line printed); 2 undecided; 3 checker error."""

import argparse
import importlib
import json
import multiprocessing as mp
import os
import re
import sys
import time
import traceback

HERE = os.path.dirname(os.path.dirname(os.path.abspath(__file__)))


def load_contract(pid):
    return importlib.import_module("contracts." + pid.lower())


def _worker(args):
    pid, cfg, tier, seed, canary = args
    t0 = time.time()
    from engine.oblig import Ctx
    from engine.nir2smt import Unsupported

    import warnings

    warnings.filterwarnings("ignore")
    mod = load_contract(pid)
    ctx = Ctx(pid, cfg, tier, seed)
    out = {"cfg": cfg, "status": "ok", "canary": canary}
    try:
        if canary is not None:
            spec = [c for c in mod.CANARIES if c["name"] == canary][0]
            spec["patch"]()
        if isinstance(cfg, dict) and cfg.get("kind") == "history_lemmas":
            from engine import lemmas

            lemmas.run(cfg, ctx)
        else:
            mod.run(cfg, ctx)
        ctx.finish()
    except Unsupported as e:
        out["status"] = "undecided"
        out["error"] = f"Unsupported: {e}"
    except Exception:
        out["status"] = "error"
        out["error"] = traceback.format_exc()
    out.update(ctx.result())
    out["wall_s"] = round(time.time() - t0, 3)
    return out


def load_known():
    p = os.path.join(HERE, "known_findings.json")
    if not os.path.exists(p):
        return {"findings": [], "fixed": []}
    with open(p) as f:
        return json.load(f)


def finding_matches(f, pid, rec):
    if f.get("property") != pid:
        return False
    m = f.get("match", {})
    if "obligation" in m and not re.search(m["obligation"], rec["name"]):
        return False
    for k, v in m.get("cfg", {}).items():
        if rec["cfg"].get(k) != v:
            return False
    for k, vs in m.get("cfg_in", {}).items():
        if rec["cfg"].get(k) not in vs:
            return False
    return True


def run_pool(jobs, nproc):
    if not jobs:
        return []
    nproc = max(1, min(nproc, len(jobs)))
    ctxm = mp.get_context("fork")
    results = []
    with ctxm.Pool(processes=nproc, maxtasksperchild=8) as pool:
        for r in pool.imap_unordered(_worker, jobs, chunksize=1):
            results.append(r)
    return results


def check(pid, tier, only_cfg=None, quiet=False):
    t0 = time.time()
    seed = int(os.environ.get("VERIF_SEED", "0"))
    mod = load_contract(pid)
    cfgs = mod.configs(tier)
    if hasattr(mod, "HISTORY_LEMMAS"):
        from engine import lemmas

        cfgs = cfgs + [lemmas.config(mod.HISTORY_LEMMAS)]
    if only_cfg is not None:
        cfgs = [c for c in cfgs if c == only_cfg] or [only_cfg]
    nproc = int(os.environ.get("VERIF_JOBS", str(os.cpu_count() or 4)))
    jobs = [(pid, c, tier, seed, None) for c in cfgs]
    results = run_pool(jobs, nproc)
    results.sort(key=lambda r: json.dumps(r["cfg"], sort_keys=True, default=str))

    canary_results = []
    if tier == "thorough" and hasattr(mod, "CANARIES") and only_cfg is None:
        cjobs = [(pid, c["cfg"], tier, seed, c["name"]) for c in mod.CANARIES]
        canary_results = run_pool(cjobs, nproc)

    known = load_known()
    records = [r for res in results for r in res["records"]]
    covers = [c for res in results for c in res["covers"]]
    bounded = [b for res in results for b in res["bounded"]]
    errors = [res for res in results if res["status"] == "error"]
    undecided = [res for res in results if res["status"] == "undecided"]
    proved = [r for r in records if r["verdict"] == "proved"]
    unknown = [r for r in records if r["verdict"] == "unknown"]
    violated = [r for r in records if r["verdict"] == "violated"]
    bounded_fail = [b for b in bounded if b["n_failures"]]
    failed_covers = [c for c in covers if c["result"] != "sat"]
    xval_bad = [x for res in results for x in res["xvals"] if x["mismatches"]]

    known_hits = []
    new_violations = []
    translator_disagreements = []
    for r in violated:
        tr = r.get("trace")
        if tr and not tr.get("simulator_agrees_with_model", True):
            translator_disagreements.append(r)
            continue
        hit = [f for f in known["findings"] if finding_matches(f, pid, r)]
        if hit:
            known_hits.append((hit[0], r))
        else:
            new_violations.append(r)
    for b in bounded_fail:
        rec = {"name": b["name"], "cfg": b["cfg"]}
        hit = [f for f in known["findings"] if finding_matches(f, pid, rec)]
        if hit:
            known_hits.append((hit[0], rec))
        else:
            new_violations.append({"name": b["name"], "cfg": b["cfg"], "verdict": "violated", "bounded_failures": b["failures"]})

    # canaries: each must make a matching obligation fail
    canary_report = []
    canary_bad = []
    for cr in canary_results:
        spec = [c for c in mod.CANARIES if c["name"] == cr["canary"]][0]
        failing = [r["name"] for r in cr["records"] if r["verdict"] == "violated"]
        failing += [b["name"] for b in cr["bounded"] if b["n_failures"]]
        if cr["status"] == "error" and spec.get("error_ok"):
            failing.append("elaboration-error")
        ok = any(re.search(spec["expect"], n) for n in failing)
        canary_report.append({"canary": cr["canary"], "killed": ok, "failing_obligations": failing[:8]})
        if not ok:
            canary_bad.append(cr["canary"] + (" [canary run crashed: " + cr.get("error", "")[-300:] + "]" if cr["status"] != "ok" else ""))

    # replay files
    replay_paths = []
    rdir = os.path.join(HERE, "replays", pid)
    for i, r in enumerate(new_violations):
        os.makedirs(rdir, exist_ok=True)
        path = os.path.join(rdir, f"{tier}-{i}.json")
        with open(path, "w") as f:
            json.dump({"property": pid, "tier": tier, "obligation": r["name"], "cfg": r["cfg"], "record": r}, f, indent=1, default=str)
        replay_paths.append(path)

    known_recs = {id(r) for _, r in known_hits}
    n_obl = len([r for r in records if id(r) not in known_recs])
    level = getattr(mod, "LEVEL", "proof")
    functions = sorted({tuple(f) for res in results for f in res["functions"]})
    from engine.hw import file_sha

    files = sorted({f[1] for f in functions if not f[1].startswith("verif:")})
    assumptions = sorted({a for res in results for a in res["assumptions"]} | set(getattr(mod, "ASSUMPTIONS", [])))
    samples = [s for res in results for s in res["samples"]][:3]
    solver_time = sum(res["solver_time"] for res in results)
    max_obl = max([r["time_s"] for r in records], default=0.0)
    backends = {}
    for r in records:
        backends[r["backend"]] = backends.get(r["backend"], 0) + 1
    cvc5_recs = [r for r in records if "cvc5" in r]
    cvc5_counts = {}
    for r in cvc5_recs:
        k = r["cvc5"] if r["cvc5"] in ("unsat", "sat", "unknown") else "error"
        cvc5_counts[k] = cvc5_counts.get(k, 0) + 1
    if cvc5_recs:
        backends["cvc5-" + __import__("cvc5").__version__ + " (re-discharged, agree)"] = cvc5_counts.get("unsat", 0)
    solver_disagreements = [r for r in cvc5_recs if r["cvc5"] == "sat"]
    cover_ok = len(covers) - len(failed_covers)
    xval_cycles = sum(x["cycles"] for res in results for x in res["xvals"])

    coverage = {
        "obligations": n_obl,
        "discharged": len(proved),
        "checker_cmd": f"./vrun check {pid} --tier {tier}",
        "trusted_base": getattr(mod, "TRUSTED", [])
        + [
            "Amaranth 0.5.9 elaborator and NIR cell semantics (cross-checked against Amaranth's simulator, see translator_xval)",
            "z3 " + __import__("z3").get_version_string() + (" (thorough tier: every discharged obligation re-discharged by cvc5, see cvc5_recheck)" if cvc5_recs else ""),
        ],
        "configurations": len(results),
        "configuration_list": [res["cfg"] for res in results][:80],
        "undischarged": [{"name": r["name"], "cfg": r["cfg"], "verdict": r["verdict"]} for r in records if r["verdict"] != "proved" and id(r) not in known_recs][:20],
        "obligations_failing_as_known_findings": len(known_recs),
        "backends": backends,
        "obligations_using_input_assumptions": sum(1 for r in records if r.get("n_assume")),
        "cvc5_recheck": {"rechecked": len(cvc5_recs), **cvc5_counts, "time_s": round(sum(r.get("cvc5_time_s", 0) for r in cvc5_recs), 2),
                         "not_confirmed": [{"name": r["name"], "cfg": r["cfg"], "cvc5": r["cvc5"]} for r in cvc5_recs if r["cvc5"] != "unsat"][:10]},
        "solver_time_s": round(solver_time, 3),
        "max_obligation_time_s": max_obl,
        "covers": {"total": len(covers), "satisfiable": cover_ok},
        "translator_xval": {"harnesses": sum(len(res["xvals"]) for res in results), "cycles": xval_cycles, "mismatching_harnesses": len(xval_bad)},
        "functions_under_contract": [f"{q} ({fn})" for q, fn in functions][:400],
        "source_files_sha256": {f: file_sha(f) for f in files},
        "netlist_stats": {
            "harnesses": sum(len(res["stats"]) for res in results),
            "max_cells": max([s["cells"] for res in results for s in res["stats"]], default=0),
            "max_state_bits": max([s["state_bits"] for res in results for s in res["stats"]], default=0),
        },
        "samples": samples + [{"bounded": b["name"], "cfg": b["cfg"], "samples": b["samples"]} for b in bounded[:2]],
        "bounded_parts": [
            {k: b[k] for k in ("name", "cfg", "evaluations", "distinct_nontrivial", "rule", "exhaustive", "n_failures")} for b in bounded
        ][:60],
        "known_findings_hit": [f"{f['what']} @ {r['name']} {r['cfg']}" for f, r in known_hits][:20],
        "canaries": canary_report,
        "skipped_configurations": {"count": sum(1 for res in results if any(n.startswith("skipped") for n in res["notes"])),
                                   "examples": [n for res in results for n in res["notes"] if n.startswith("skipped")][:5]},
        "notes": [n for res in results for n in res["notes"] if not n.startswith("skipped")][:20],
    }
    if bounded:
        coverage["evaluations"] = sum(b["evaluations"] for b in bounded)
        coverage["distinct_nontrivial"] = sum(b["distinct_nontrivial"] for b in bounded)
        coverage["rule"] = "; ".join(sorted({b["rule"] for b in bounded}))[:2000]
        coverage["exhaustive"] = all(b["exhaustive"] for b in bounded)
    if level != "proof" or n_obl == 0:
        level = "exploration" if bounded else level
    evidence = {
        "property_id": pid,
        "tier": tier,
        "seed": seed,
        "level": level,
        "coverage": coverage,
        "assumptions": assumptions,
        "wall_s": round(time.time() - t0, 2),
        "violations": len(new_violations),
    }
    # VERIF_EVIDENCE_DIR: used by seeded/run_seeds.sh so that runs against a deliberately broken tree do not overwrite evidence/
    edir = os.path.join(HERE, os.environ.get("VERIF_EVIDENCE_DIR", "evidence"))
    os.makedirs(edir, exist_ok=True)
    if only_cfg is None:
        with open(os.path.join(edir, f"{pid}.json"), "w") as f:
            json.dump(evidence, f, indent=1, default=str)

    # ---------------------------------------------------------------- report
    def p(*a):
        if not quiet:
            print(*a)

    p(f"[{pid}] tier={tier} configs={len(results)} obligations={n_obl} discharged={len(proved)} "
      f"unknown={len(unknown)} violated={len(new_violations)} known_finding_obligations={len(known_hits)} covers={cover_ok}/{len(covers)} "
      f"bounded={len(bounded)} solver={solver_time:.1f}s wall={time.time() - t0:.1f}s")
    seen_f = []
    for f_, r in known_hits:
        if any(f_ is g for g in seen_f):
            continue
        seen_f.append(f_)
        hits = [rr for ff, rr in known_hits if ff is f_]
        print(f"KNOWN-FINDING: property={pid} {f_['what']} [{len(hits)} matching obligation(s), e.g. {hits[0]['name']} cfg {json.dumps(hits[0]['cfg'], default=str)}]")
    for r, path in zip(new_violations, replay_paths):
        tr = r.get("trace")
        tail = "" if (tr or r.get("interface_trace") or r.get("bounded_failures") or r.get("native_replay")) else " no-failing-input-found"
        p(f"  failed obligation {r['name']} cfg={json.dumps(r['cfg'], default=str)}")
        print(f"VIOLATION property={pid} replay={path}{tail}")
    for res in errors:
        p(f"  CHECKER ERROR cfg={res['cfg']}:\n{res['error']}")
    for res in undecided:
        p(f"  UNDECIDED cfg={res['cfg']}: {res['error']}")
    for r in unknown:
        p(f"  UNKNOWN obligation {r['name']} cfg={r['cfg']} ({r.get('reason')})")
    for c in failed_covers:
        p(f"  VACUITY: cover {c['name']} cfg={c['cfg']} is {c['result']}")
    for x in xval_bad:
        p(f"  TRANSLATOR MISMATCH vs Amaranth simulator: {x['mismatches'][:2]}")
    for r in translator_disagreements:
        p(f"  TRANSLATOR DISAGREEMENT on counterexample of {r['name']} cfg={r['cfg']}")
    for r in solver_disagreements:
        p(f"  SOLVER DISAGREEMENT: z3 unsat, cvc5 sat on {r['name']} cfg={r['cfg']}")
    for c in canary_bad:
        p(f"  CANARY SURVIVED: {c} (contract too weak)")
    if new_violations:
        return 1
    if errors or failed_covers or xval_bad or translator_disagreements or solver_disagreements or canary_bad or (n_obl == 0 and not bounded):
        if n_obl == 0 and not bounded:
            p("  zero obligations generated")
        return 3
    if unknown or undecided:
        return 2
    return 0


def replay(path):
    with open(path) as f:
        rp = json.load(f)
    pid, cfg, name = rp["property"], rp["cfg"], rp["obligation"]
    res = _worker((pid, cfg, rp.get("tier", "quick"), int(os.environ.get("VERIF_SEED", "0")), None))
    recs = [r for r in res["records"] if r["name"] == name]
    recs += [{"name": b["name"], "verdict": "violated" if b["n_failures"] else "proved", "bounded_failures": b["failures"]} for b in res["bounded"] if b["name"] == name]
    if res["status"] != "ok":
        print(res.get("error"))
    if not recs:
        print(f"obligation {name} not generated on this tree")
        return 3
    r = recs[0]
    print(f"obligation {name} cfg={cfg}: {r['verdict']}")
    if r["verdict"] == "violated":
        tr = r.get("trace")
        if tr:
            print(json.dumps(tr, indent=1, default=str))
        elif "bounded_failures" in r:
            print(json.dumps(r["bounded_failures"], indent=1, default=str))
        else:
            print("counterexample to the obligation (pre-state + inputs):", json.dumps({"inputs": r.get("cex_inputs"), "state": r.get("cex_state")}, default=str))
        print(f"VIOLATION property={pid} replay={path}")
        return 1
    return 0


def main():
    ap = argparse.ArgumentParser()
    sub = ap.add_subparsers(dest="cmd", required=True)
    c = sub.add_parser("check")
    c.add_argument("pid")
    c.add_argument("--tier", default=None)
    c.add_argument("--cfg", default=None, help="JSON of a single configuration")
    r = sub.add_parser("replay")
    r.add_argument("path")
    sub.add_parser("list")
    a = ap.parse_args()
    if a.cmd == "check":
        tier = os.environ.get("VERIF_TIER") or a.tier or "quick"
        sys.exit(check(a.pid, tier, json.loads(a.cfg) if a.cfg else None))
    if a.cmd == "replay":
        sys.exit(replay(a.path))
    if a.cmd == "list":
        for fn in sorted(os.listdir(os.path.join(HERE, "contracts"))):
            if re.match(r"c\d+\.py$", fn):
                print(fn[:-3].upper())


if __name__ == "__main__":
    main()
