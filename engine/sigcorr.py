"""Register/memory-row correspondence (van Eijk-style signal correspondence), used to derive the "all copies are
equal" part of a relational invariant automatically.

Starting from the partition of state elements by (width, initial value), classes are refined until the conjunction E of
all in-class equalities is inductive on its own:   E(S) and A(I) and rst=0  =>  E(S').
E holds initially by construction (equal initial values), so E is an invariant of every run that satisfies A."""

import z3


class Correspondence:
    def __init__(self, hw, assume=None, keys=None, max_iter=400):
        self.hw = hw
        ts = hw.ts
        self.assume = assume if assume is not None else z3.BoolVal(True)
        keys = [k for k in (keys if keys is not None else ts.state) if k[0] != "ghost"]
        groups = {}
        for k in keys:
            groups.setdefault((ts.state[k].size(), ts.init[k]), []).append(k)
        self.classes = [g for g in groups.values()]
        self.iterations = 0
        self._refine(max_iter)

    def _eqs(self, classes, nxt):
        ts = self.hw.ts
        src = ts.next if nxt else ts.state
        out = []
        for c in classes:
            for m in c[1:]:
                out.append(src[m] == src[c[0]])
        return out

    def _refine(self, max_iter):
        ts = self.hw.ts
        hw = self.hw
        changed = True
        while changed:
            changed = False
            self.iterations += 1
            if self.iterations > max_iter:
                raise RuntimeError("signal correspondence did not converge")
            E = self._eqs(self.classes, False)
            solver = z3.Solver()
            solver.add(*E, self.assume, hw.no_reset())
            new_classes = []
            for c in self.classes:
                if len(c) < 2:
                    new_classes.append(c)
                    continue
                solver.push()
                solver.add(z3.Or(*[ts.next[m] != ts.next[c[0]] for m in c[1:]]))
                r = solver.check()
                if r == z3.sat:
                    mdl = solver.model()
                    parts = {}
                    for m in c:
                        v = mdl.eval(ts.next[m], model_completion=True).as_long()
                        parts.setdefault(v, []).append(m)
                    new_classes.extend(parts.values())
                    changed = True
                elif r == z3.unsat:
                    new_classes.append(c)
                else:
                    raise RuntimeError("solver returned unknown during signal correspondence")
                solver.pop()
            self.classes = new_classes

    def E(self, nxt=False):
        eqs = self._eqs(self.classes, nxt)
        return z3.And(*eqs) if eqs else z3.BoolVal(True)

    def same(self, k1, k2):
        return any(k1 in c and k2 in c for c in self.classes)

    def rep(self, key):
        for c in self.classes:
            if key in c:
                return c[0]
        return key

    def summary(self):
        return {"classes": len(self.classes), "nontrivial": sum(1 for c in self.classes if len(c) > 1), "largest": max((len(c) for c in self.classes), default=0), "iterations": self.iterations}
