"""Regenerates /verif/MANIFEST.json from the contract modules present (./vrun py -m engine.mkmanifest)."""

import importlib
import json
import os
import re

HERE = os.path.dirname(os.path.dirname(os.path.abspath(__file__)))

NOT_APPLICABLE = {
    # property id -> reason (only for properties with no contract module)
}

DEFAULT_NOTE = (
    "Trusted: Amaranth 0.5.9 elaboration and the NIR cell semantics encoded in engine/nir2smt.py (cross-checked on every run "
    "against Amaranth's Python simulator on seeded random stimulus), z3 5.1.0. Bounded: the Python-level configuration / program "
    "space listed in the evidence file; unbounded: input valuations and history length (one-step induction over a representation invariant)."
)


def main():
    props = [json.loads(l) for l in open(os.path.join(HERE, "properties.jsonl"))]
    checks = []
    na = []
    for p in props:
        pid = p["id"]
        path = os.path.join(HERE, "contracts", pid.lower() + ".py")
        if not os.path.exists(path):
            na.append({"property_id": pid, "reason": NOT_APPLICABLE.get(pid, "no check registered yet: the contract module for this property is not built (see DESIGN.md section 6 for the plan)")})
            continue
        mod = importlib.import_module("contracts." + pid.lower())
        level = getattr(mod, "LEVEL", "proof")
        technique = getattr(mod, "TECHNIQUE", "contracts (wf/view/requires/ensures) on the elaborated netlist of the real code, discharged by z3 (one-step induction)")
        if hasattr(mod, "HISTORY_LEMMAS"):
            technique += "; the induction from the one-cycle contracts to the history-level statement is a set of lemmas over the specification functions checked by Lean 4 (lemmas/History.lean: " + ", ".join(mod.HISTORY_LEMMAS) + ")"
        checks.append(
            {
                "property_id": pid,
                "quick_cmd": f"./vrun check {pid} --tier quick",
                "thorough_cmd": f"./vrun check {pid} --tier thorough",
                "evidence_file": f"evidence/{pid}.json",
                "replay_cmd_template": "./vrun replay {path}",
                "engine": getattr(mod, "ENGINE", "E-HW"),
                "level_claimed": {
                    "category": level,
                    "text": getattr(mod, "LEVEL_TEXT", mod.__doc__.strip().split("\n\n")[0] if mod.__doc__ else ""),
                    "design_ref": f"DESIGN.md section 6 ({pid})",
                },
                "level_note": getattr(mod, "LEVEL_NOTE", DEFAULT_NOTE),
                "technique": technique,
            }
        )
    manifest = {
        "version": 1,
        "setup_cmd": "./vrun --setup",
        "hooks": {
            "guard": "TRANSACTRON_VERIF",
            "enable": "no source hooks are needed: contracts are sidecar modules under /verif/contracts that import the real classes; state is reached through object attributes and elaborate() frame locals captured with sys.setprofile",
            "baseline_off_cmd": "cd /repo && /venv/bin/python -m pytest -ra -q -p no:cacheprovider --timeout=900 --continue-on-collection-errors",
            "source_commits": [],
            "add_only": True,
        },
        "engines": [
            {"name": "E-HW", "path": "engine/nir2smt.py", "kind_free_text": "Amaranth NIR netlist of the real code -> z3 transition system; contract obligations by 1-induction", "serves_properties": [c["property_id"] for c in checks if "E-HW" in c["engine"]]},
            {"name": "E-PY", "path": "engine/pysym.py", "kind_free_text": "real Python function executed on symbolic proxies, one VC per path", "serves_properties": [c["property_id"] for c in checks if "E-PY" in c["engine"]]},
            {"name": "E-LEAN", "path": "engine/lemmas.py", "kind_free_text": "history-level lemmas over the specification functions (lemmas/History.lean), checked by Lean 4 on every run with an axiom audit", "serves_properties": [c["property_id"] for c in checks if "Lean 4" in c["technique"]]},
            {"name": "E-RT", "path": "engine/oblig.py", "kind_free_text": "run-time contracts on the real functions over exhaustively enumerated small inputs (Ctx.bounded_result; simulator stub in engine/simstub.py) — bounded stand-in, never counted as proved", "serves_properties": [c["property_id"] for c in checks if "E-RT" in c["engine"]]},
        ],
        "checks": checks,
        "not_applicable": na,
        "notes": "See DESIGN.md. Exit codes of every check: 0 held, 1 violation (VIOLATION line), 2 undecided (solver unknown / unsupported construct), 3 checker error (vacuity, translator mismatch, crash).",
    }
    with open(os.path.join(HERE, "MANIFEST.json"), "w") as f:
        json.dump(manifest, f, indent=1)
    try:
        import jsonschema

        jsonschema.validate(manifest, json.load(open("/root/.vp/MANIFEST.schema.json")))
        print("MANIFEST.json valid:", len(checks), "checks,", len(na), "not applicable")
    except FileNotFoundError:
        print("schema not found; written without validation")


if __name__ == "__main__":
    main()
