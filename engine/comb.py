"""Harness for purely combinational library functions: the real function is called inside a one-line
module (`out_i.eq(f(inputs...))`), elaborated, and `forall inputs: A => out = spec(in)` is discharged."""

import z3
from amaranth import Elaboratable, Module, Signal, Value
from amaranth.hdl import _ast

from .hw import HW

IW = 24  # width of "mathematical integers" in combinational specs (all values here are far below 2**23)


class _CombTop(Elaboratable):
    def __init__(self, fn, submodules=None):
        self.fn = fn
        self.outs = []
        self.shapes = []
        self.sub = submodules or {}

    def elaborate(self, platform):
        m = Module()
        for k, v in self.sub.items():
            m.submodules[k] = v
        for i, e in enumerate(self.fn(m)):
            v = Value.cast(e)
            self.shapes.append(v.shape())
            o = Signal(v.shape(), name=f"o{i}")
            m.d.comb += o.eq(v)
            self.outs.append(o)
        return m


class Comb:
    def __init__(self, inputs, fn, submodules=None, wrap=None):
        """inputs: list of Signals; fn(m) -> list of value-likes computed by the real code."""
        self.top = _CombTop(fn, submodules)
        top = wrap(self.top) if wrap else self.top
        from amaranth.hdl._ir import Fragment
        from .hw import Recorder

        rec = Recorder(())
        with rec:
            frag = Fragment.get(top, None)
        self.hw = HW(frag, inputs, self.top.outs)
        self.hw.rec = rec
        self.ins = [self.hw.sig(i) for i in inputs]
        self.outs = [self.hw.sig(o) if len(o) else None for o in self.top.outs]
        self.shapes = self.top.shapes


def I(term, signed=False, width=None):
    """z3 bit-vector -> IW-bit 'integer' (sign- or zero-extended); python ints pass through."""
    if isinstance(term, int):
        return z3.BitVecVal(term, IW)
    if term is None:
        return z3.BitVecVal(0, IW)
    if z3.is_bool(term):
        return z3.If(term, z3.BitVecVal(1, IW), z3.BitVecVal(0, IW))
    if term.size() == IW:
        return term
    assert term.size() < IW, term.size()
    return z3.SignExt(IW - term.size(), term) if signed else z3.ZeroExt(IW - term.size(), term)


def as_int(term, shape):
    return I(term, shape.signed)


def bit(x, i):
    return z3.Extract(i, i, x) == 1


def ite_chain(idx, items, default):
    r = default
    for i in reversed(range(len(items))):
        r = z3.If(idx == i, items[i], r)
    return r
