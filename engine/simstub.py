"""Stub of Amaranth's simulator context implementing only its assumed contract (DESIGN.md 2.3):
`sim.set(x, v)` takes effect for the cycle in progress; awaiting `sim.tick().sample(*xs)` completes one clock cycle and
returns `(clk, rst, *values)` with the values the expressions had in that cycle; `.until(c)` repeats until c sampled
true. The "world" (what the design would do) is a callback computing the driven signals of a cycle from the ones the
testbench set."""

from amaranth.hdl import _ast as A
from amaranth.hdl._ast import ValueCastable


class EndOfScript(Exception):
    pass


def evaluate(expr, env):
    """value of an Amaranth expression built from Signals / Const / Cat / slices; env: id(Signal) -> int"""
    v = A.Value.cast(expr)
    if isinstance(v, A.Const):
        return v.value & ((1 << len(v)) - 1)
    if isinstance(v, A.Signal):
        return env.get(id(v), v.init if isinstance(v.init, int) else 0) & ((1 << len(v)) - 1)
    if isinstance(v, A.Concat):
        r, off = 0, 0
        for p in v.parts:
            r |= evaluate(p, env) << off
            off += len(p)
        return r
    if isinstance(v, A.Slice):
        return (evaluate(v.value, env) >> v.start) & ((1 << (v.stop - v.start)) - 1)
    if isinstance(v, A.Operator) and v.operator in ("u", "s") and len(v.operands) == 1:
        return evaluate(v.operands[0], env)
    if isinstance(v, A.Operator):
        ops = [evaluate(o, env) for o in v.operands]
        mask = (1 << len(v)) - 1
        if v.operator in ("b", "r|") and len(ops) == 1:
            return int(ops[0] != 0)
        if v.operator == "~" and len(ops) == 1:
            return ~ops[0] & mask
        if v.operator in ("&", "|", "^") and len(ops) == 2 and not any(o.shape().signed for o in v.operands):
            return {"&": ops[0] & ops[1], "|": ops[0] | ops[1], "^": ops[0] ^ ops[1]}[v.operator] & mask
        if v.operator == "==" and len(ops) == 2 and not any(o.shape().signed for o in v.operands):
            return int(ops[0] == ops[1])
    raise NotImplementedError(f"stub cannot evaluate {type(v).__name__} {getattr(v, 'operator', '')}")


def present(expr, intval):
    if isinstance(expr, ValueCastable):
        return expr.shape().from_bits(intval)
    return intval


class StubTick:
    def __init__(self, sim, samples=(), until=None):
        self.sim, self.samples, self._until = sim, tuple(samples), until

    def sample(self, *values):
        return StubTick(self.sim, self.samples + tuple(values), self._until)

    def until(self, cond):
        return StubTick(self.sim, self.samples, cond)

    def __aiter__(self):
        return self

    async def __anext__(self):
        try:
            return await self
        except EndOfScript:
            raise StopAsyncIteration

    def __await__(self):
        while True:
            env = self.sim.step()
            vals = tuple(present(x, evaluate(x, env)) for x in self.samples)
            if self._until is None or evaluate(self._until, env):
                return (1, 0, *vals)
        yield  # pragma: no cover  (makes this a generator function)


class StubSim:
    """world(t, env) must fill env with the values of the design-driven signals for cycle t (may raise EndOfScript)."""

    def __init__(self, world):
        self.world = world
        self.env = {}
        self.t = 0
        self.trace = []  # per completed cycle: snapshot of env

    def set(self, sig, value):
        if isinstance(sig, ValueCastable):
            shape = sig.shape()
            v = shape.const(value).as_bits() if isinstance(value, dict) else int(value)
            sig = A.Value.cast(sig)
        else:
            v = int(value)
        assert isinstance(sig, A.Signal), "stub supports set() on signals only"
        self.env[id(sig)] = v & ((1 << len(sig)) - 1)

    def get(self, expr):
        env = dict(self.env)
        self.world(self.t, env)
        return present(expr, evaluate(expr, env))

    def tick(self):
        return StubTick(self)

    def step(self):
        env = dict(self.env)
        self.world(self.t, env)
        self.trace.append(env)
        self.t += 1
        return env


def drive(coro):
    """run an `async def` to completion on the stub (nothing ever suspends)"""
    try:
        coro.send(None)
    except StopIteration as e:
        return e.value
    raise RuntimeError("coroutine suspended: the stub never yields")
