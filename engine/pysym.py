"""E-PY — the real Python function object executed on symbolic proxy values (DESIGN.md section 2.2).

SInt wraps a z3 bit-vector of width PW interpreted as a signed integer; Python's unbounded two's-complement
semantics of  & | ^ ~ - + * << >>  coincide with the PW-bit ones as long as no intermediate value leaves the
signed PW-bit range, and that is itself an obligation: every arithmetic operation records a no-overflow side
condition which the caller must discharge under the path condition.  SBool.__bool__ forks: the driver explores
every feasible decision vector depth first.  __hash__ is constant so that dict/set/dataclass hashing falls through to
__eq__ (and forks there).  Anything not implemented raises (the check is then undecided, never proved)."""

import z3

PW = 40


class Unsupported(Exception):
    pass


class Ctx:
    cur = None

    def __init__(self, decisions):
        self.decisions = list(decisions)
        self.pos = 0
        self.pc = []
        self.side = []  # no-overflow side conditions (z3 Bool), each must hold under the path condition so far
        self.solver = z3.Solver()

    def branch(self, cond):
        c = z3.simplify(cond)
        if z3.is_true(c):
            return True
        if z3.is_false(c):
            return False
        if self.pos < len(self.decisions):
            d = self.decisions[self.pos]
        else:
            self.solver.push()
            self.solver.add(*self.pc, c)
            d = self.solver.check() == z3.sat
            self.solver.pop()
            self.decisions.append(d)
        self.pos += 1
        self.pc.append(c if d else z3.Not(c))
        return d

    def require(self, cond):
        self.side.append((list(self.pc), cond))


def _t(o):
    if isinstance(o, SInt):
        return o.e
    if isinstance(o, bool):
        return z3.BitVecVal(int(o), PW)
    if isinstance(o, int):
        if not -(1 << (PW - 1)) <= o < (1 << (PW - 1)):
            raise Unsupported(f"constant {o} outside the {PW}-bit model")
        return z3.BitVecVal(o, PW)
    return NotImplemented


class SBool:
    def __init__(self, e):
        self.e = e

    def __bool__(self):
        return Ctx.cur.branch(self.e)


class SInt:
    def __init__(self, e):
        self.e = e

    # -- comparisons ----------------------------------------------------------------------------
    def __eq__(self, o):
        t = _t(o)
        return NotImplemented if t is NotImplemented else SBool(self.e == t)

    def __ne__(self, o):
        t = _t(o)
        return NotImplemented if t is NotImplemented else SBool(self.e != t)

    def __lt__(self, o):
        return SBool(self.e < _t(o))

    def __le__(self, o):
        return SBool(self.e <= _t(o))

    def __gt__(self, o):
        return SBool(self.e > _t(o))

    def __ge__(self, o):
        return SBool(self.e >= _t(o))

    def __hash__(self):
        return 0

    def __bool__(self):
        return Ctx.cur.branch(self.e != 0)

    def __index__(self):
        raise Unsupported("symbolic integer used as an index")

    # -- arithmetic with no-overflow side conditions ---------------------------------------------------
    def _arith(self, o, fn, check):
        t = _t(o)
        if t is NotImplemented:
            return NotImplemented
        a, b = (self.e, t)
        Ctx.cur.require(check(a, b))
        return SInt(fn(a, b))

    def __add__(self, o):
        return self._arith(o, lambda a, b: a + b, lambda a, b: z3.And(z3.BVAddNoOverflow(a, b, True), z3.BVAddNoUnderflow(a, b)))

    __radd__ = __add__

    def __sub__(self, o):
        return self._arith(o, lambda a, b: a - b, lambda a, b: z3.And(z3.BVSubNoOverflow(a, b), z3.BVSubNoUnderflow(a, b, True)))

    def __rsub__(self, o):
        return SInt(_t(o)).__sub__(self)

    def __mul__(self, o):
        return self._arith(o, lambda a, b: a * b, lambda a, b: z3.And(z3.BVMulNoOverflow(a, b, True), z3.BVMulNoUnderflow(a, b)))

    __rmul__ = __mul__

    def __neg__(self):
        Ctx.cur.require(self.e != z3.BitVecVal(-(1 << (PW - 1)), PW))
        return SInt(-self.e)

    def __invert__(self):
        return SInt(~self.e)

    def __and__(self, o):
        t = _t(o)
        return NotImplemented if t is NotImplemented else SInt(self.e & t)

    __rand__ = __and__

    def __or__(self, o):
        t = _t(o)
        return NotImplemented if t is NotImplemented else SInt(self.e | t)

    __ror__ = __or__

    def __xor__(self, o):
        t = _t(o)
        return NotImplemented if t is NotImplemented else SInt(self.e ^ t)

    __rxor__ = __xor__

    def __rshift__(self, o):
        if not isinstance(o, int) or o < 0:
            raise Unsupported("shift by a symbolic or negative amount")
        return SInt(self.e >> min(o, PW - 1))  # arithmetic shift = floor division by 2**o

    def __lshift__(self, o):
        if not isinstance(o, int) or o < 0:
            raise Unsupported("shift by a symbolic or negative amount")
        if o >= PW - 1:
            raise Unsupported("shift amount too large for the model")
        m = z3.BitVecVal(1 << o, PW)
        Ctx.cur.require(z3.And(z3.BVMulNoOverflow(self.e, m, True), z3.BVMulNoUnderflow(self.e, m)))
        return SInt(self.e << o)


def explore(fn, max_paths=20000):
    """Run fn() under every feasible decision vector. Yields dicts(pc, result | exception, side)."""
    stack = [[]]
    out = []
    while stack:
        dec = stack.pop()
        ctx = Ctx(dec)
        Ctx.cur = ctx
        try:
            res = ("ok", fn())
        except Unsupported:
            raise
        except Exception as e:  # noqa: BLE001
            res = ("raise", e)
        finally:
            Ctx.cur = None
        out.append({"pc": list(ctx.pc), "result": res, "side": list(ctx.side)})
        if len(out) > max_paths:
            raise Unsupported("too many paths")
        for i in range(len(dec), len(ctx.decisions)):
            s = z3.Solver()
            s.add(*ctx.pc[:i])
            s.add(z3.Not(ctx.pc[i]))
            if s.check() == z3.sat:
                stack.append(ctx.decisions[:i] + [not ctx.decisions[i]])
    return out


def sint(name):
    return SInt(z3.BitVec(name, PW))


def to_int(e):
    """signed bit-vector term -> z3 Int (for specifications in integer arithmetic)"""
    return z3.BV2Int(e, is_signed=True)
