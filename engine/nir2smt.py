"""Amaranth NIR netlist -> z3 transition system (engine E-HW, DESIGN.md section 2.1).

The netlist is produced by Amaranth's own elaborator (`amaranth.hdl._ir.build_netlist`) from the real
/repo code; this module gives every cell kind its documented meaning as a QF_BV term.

Zero-width values are represented by ``None``.
"""

import z3
from amaranth.hdl import _nir, _ir, _ast
from amaranth.hdl._ir import Fragment


class Unsupported(Exception):
    """A cell/operator outside the encoded subset: the check is undecided (exit 2), never proved."""


def _b1(cond):
    return z3.If(cond, z3.BitVecVal(1, 1), z3.BitVecVal(0, 1))


def bvcat(parts):
    """parts LSB first, None entries dropped."""
    parts = [p for p in parts if p is not None]
    if not parts:
        return None
    if len(parts) == 1:
        return parts[0]
    return z3.Concat(*reversed(parts))


def zext(x, w):
    return x if x.size() == w else z3.ZeroExt(w - x.size(), x)


def sext(x, w):
    return x if x.size() == w else z3.SignExt(w - x.size(), x)


class TS:
    """Transition system of a netlist.

    state : key -> z3 BitVec var   (keys: ("ff", cell), ("rp", cell), ("mem", cell, row))
    next  : key -> z3 term over state and inputs
    init  : key -> int
    inputs: port name -> z3 BitVec var
    """

    def __init__(self, netlist, suffix=""):
        self.nl = netlist
        self.suffix = suffix
        self.cellval = {}
        self.state = {}
        self.next = {}
        self.init = {}
        self.inputs = {}
        self.mem_next_rows = {}
        self.probes = {}  # label -> (kind, z3 term) recorded by users for replay
        self._build()

    # ---------------------------------------------------------------- values
    def bv(self, name, w):
        return z3.BitVec(name + self.suffix, w)

    def val(self, value):
        """NIR Value (sequence of nets, LSB first) -> z3 BV (None for width 0)."""
        n = len(value)
        if n == 0:
            return None
        parts = []
        i = 0
        while i < n:
            net = value[i]
            if net.is_const:
                j = i
                v = 0
                while j < n and value[j].is_const:
                    v |= int(value[j]) << (j - i)
                    j += 1
                parts.append(z3.BitVecVal(v, j - i))
                i = j
            else:
                c, b = net.cell, net.bit
                j = i
                while j < n and (not value[j].is_const) and value[j].cell == c and value[j].bit == b + (j - i):
                    j += 1
                cv = self.cell(c)
                if b == 0 and (j - i) == cv.size():
                    parts.append(cv)
                else:
                    parts.append(z3.Extract(b + (j - i) - 1, b, cv))
                i = j
        return bvcat(parts)

    def net(self, net):
        return self.val(_nir.Value([net]))

    def cell(self, idx):
        if idx in self.cellval:
            return self.cellval[idx]
        # iterative evaluation to avoid deep recursion on long chains
        stack = [idx]
        while stack:
            cur = stack[-1]
            if cur in self.cellval:
                stack.pop()
                continue
            c = self.nl.cells[cur]
            deps = [d for d in self._deps(c) if d not in self.cellval]
            if deps:
                stack.extend(deps)
                continue
            self.cellval[cur] = self._eval(cur, c)
            stack.pop()
        return self.cellval[idx]

    def _deps(self, c):
        """Cells whose value is needed combinationally to evaluate c."""
        if isinstance(c, (_nir.FlipFlop, _nir.SyncReadPort, _nir.Top, _nir.Memory, _nir.SyncWritePort)):
            return []
        nets = []
        if isinstance(c, _nir.Operator):
            for v in c.inputs:
                nets.extend(v)
        elif isinstance(c, _nir.Part):
            nets.extend(c.value)
            nets.extend(c.offset)
        elif isinstance(c, _nir.Matches):
            nets.extend(c.value)
        elif isinstance(c, _nir.PriorityMatch):
            nets.append(c.en)
            nets.extend(c.inputs)
        elif isinstance(c, _nir.AssignmentList):
            nets.extend(c.default)
            for a in c.assignments:
                nets.append(a.cond)
                nets.extend(a.value)
        elif isinstance(c, _nir.AsyncReadPort):
            nets.extend(c.addr)
        else:
            raise Unsupported(f"cell kind {type(c).__name__}")
        return list({n.cell for n in nets if not n.is_const})

    def _eval(self, idx, c):
        if isinstance(c, _nir.Top):
            pieces = {}
            for name, (start, w) in c.ports_i.items():
                v = self.bv("in_" + name, w)
                self.inputs[name] = v
                pieces[start] = (w, v)
            out = [z3.BitVecVal(2, 2)]
            pos = 2
            for start in sorted(pieces):
                w, v = pieces[start]
                assert start == pos, (start, pos)
                out.append(v)
                pos += w
            return bvcat(out)
        if isinstance(c, _nir.Operator):
            return self._operator(c)
        if isinstance(c, _nir.Part):
            v = self.val(c.value)
            off = self.val(c.offset)
            w = c.width
            if w == 0:
                return None
            if v is None:
                return z3.BitVecVal(0, w)
            if off is None:
                off = z3.BitVecVal(0, 1)
            ow = off.size()
            W = max(v.size(), w) + ow + c.stride.bit_length() + 2
            vv = sext(v, W) if c.value_signed else zext(v, W)
            oo = zext(off, W) * z3.BitVecVal(c.stride, W)
            r = (vv >> oo) if c.value_signed else z3.LShR(vv, oo)
            return z3.Extract(w - 1, 0, r)
        if isinstance(c, _nir.Matches):
            v = self.val(c.value)
            conds = []
            for p in c.patterns:
                cs = []
                n = len(p)
                for i, ch in enumerate(p):
                    bit = n - 1 - i
                    if ch == "-":
                        continue
                    cs.append(z3.Extract(bit, bit, v) == z3.BitVecVal(int(ch), 1))
                conds.append(z3.And(*cs) if cs else z3.BoolVal(True))
            return _b1(z3.Or(*conds) if conds else z3.BoolVal(False))
        if isinstance(c, _nir.PriorityMatch):
            en = self.net(c.en)
            ins = self.val(c.inputs)
            if ins is None:
                return None
            n = ins.size()
            outs = []
            prev_none = en == 1
            for i in range(n):
                bi = z3.Extract(i, i, ins) == 1
                outs.append(_b1(z3.And(prev_none, bi)))
                prev_none = z3.And(prev_none, z3.Not(bi))
            return bvcat(outs)
        if isinstance(c, _nir.AssignmentList):
            cur = self.val(c.default)
            if cur is None:
                return None
            W = cur.size()
            for a in c.assignments:
                cond = self.net(a.cond) == 1
                v = self.val(a.value)
                if v is None:
                    continue
                lo, hi = a.start, a.start + v.size()
                hi = min(hi, W)
                if lo >= W:
                    continue
                if hi - lo < v.size():
                    v = z3.Extract(hi - lo - 1, 0, v)
                pieces = []
                if lo > 0:
                    pieces.append(z3.Extract(lo - 1, 0, cur))
                pieces.append(v)
                if hi < W:
                    pieces.append(z3.Extract(W - 1, hi, cur))
                new = bvcat(pieces)
                cur = z3.If(cond, new, cur)
            return cur
        if isinstance(c, _nir.FlipFlop):
            w = len(c.data)
            if w == 0:
                return None
            if c.clk_edge != "pos":
                raise Unsupported("negedge flip-flop")
            if not (c.arst.is_const and int(c.arst) == 0):
                raise Unsupported("async reset flip-flop")
            v = self.bv(f"ff{idx}", w)
            key = ("ff", idx)
            self.state[key] = v
            self.init[key] = c.init
            return v
        if isinstance(c, _nir.SyncReadPort):
            if c.width == 0:
                return None
            if c.clk_edge != "pos":
                raise Unsupported("negedge read port")
            v = self.bv(f"rp{idx}", c.width)
            key = ("rp", idx)
            self.state[key] = v
            self.init[key] = 0
            return v
        if isinstance(c, _nir.AsyncReadPort):
            addr = self.val(c.addr)
            if c.width == 0:
                return None
            return self.mem_read(c.memory, addr)
        if isinstance(c, (_nir.Memory, _nir.SyncWritePort)):
            return None
        raise Unsupported(f"cell kind {type(c).__name__}")

    def _operator(self, c):
        ins = [self.val(v) for v in c.inputs]
        op = c.operator
        if len(ins) == 1:
            (a,) = ins
            if a is None:
                return {
                    "~": None,
                    "-": None,
                    "b": z3.BitVecVal(0, 1),
                    "r|": z3.BitVecVal(0, 1),
                    "r&": z3.BitVecVal(1, 1),
                    "r^": z3.BitVecVal(0, 1),
                }[op]
            if op == "~":
                return ~a
            if op == "-":
                return -a
            if op in ("b", "r|"):
                return _b1(a != 0)
            if op == "r&":
                return _b1(a == z3.BitVecVal(-1, a.size()))
            if op == "r^":
                r = z3.Extract(0, 0, a)
                for i in range(1, a.size()):
                    r = r ^ z3.Extract(i, i, a)
                return r
            raise Unsupported(f"unary operator {op}")
        if len(ins) == 2:
            a, b = ins
            if a is None and b is None:
                r = {"==": 1, "!=": 0, "u<": 0, "u>": 0, "u<=": 1, "u>=": 1, "s<": 0, "s>": 0, "s<=": 1, "s>=": 1}.get(op)
                return None if r is None else z3.BitVecVal(r, 1)
            if a is None:
                return None
            if b is None:
                if op in ("<<", "u>>", "s>>"):
                    return a
                raise Unsupported(f"zero-width right operand of {op}")
            if op in ("<<", "u>>", "s>>"):
                w = a.size()
                bw = b.size()
                W = max(w, bw) + 1
                aa = sext(a, W) if op == "s>>" else zext(a, W)
                bb = zext(b, W)
                if op == "<<":
                    r = aa << bb
                elif op == "u>>":
                    r = z3.LShR(aa, bb)
                else:
                    r = aa >> bb
                return z3.Extract(w - 1, 0, r)
            assert a.size() == b.size(), (op, a.size(), b.size())
            if op == "+":
                return a + b
            if op == "-":
                return a - b
            if op == "*":
                return a * b
            if op == "&":
                return a & b
            if op == "|":
                return a | b
            if op == "^":
                return a ^ b
            if op == "==":
                return _b1(a == b)
            if op == "!=":
                return _b1(a != b)
            if op == "u<":
                return _b1(z3.ULT(a, b))
            if op == "u>":
                return _b1(z3.UGT(a, b))
            if op == "u<=":
                return _b1(z3.ULE(a, b))
            if op == "u>=":
                return _b1(z3.UGE(a, b))
            if op == "s<":
                return _b1(a < b)
            if op == "s>":
                return _b1(a > b)
            if op == "s<=":
                return _b1(a <= b)
            if op == "s>=":
                return _b1(a >= b)
            zero = z3.BitVecVal(0, a.size())
            if op == "u//":
                return z3.If(b == 0, zero, z3.UDiv(a, b))
            if op == "u%":
                return z3.If(b == 0, zero, z3.URem(a, b))
            if op == "s//":
                # Amaranth: floor division, x // 0 == 0
                q = a / b  # bvsdiv truncates toward zero
                r = z3.SRem(a, b)
                adj = z3.And(r != 0, (r < 0) != (b < 0))
                return z3.If(b == 0, zero, z3.If(adj, q - 1, q))
            if op == "s%":
                r = z3.SRem(a, b)
                adj = z3.And(r != 0, (r < 0) != (b < 0))
                return z3.If(b == 0, zero, z3.If(adj, r + b, r))
            raise Unsupported(f"binary operator {op}")
        if len(ins) == 3 and op == "m":
            s, a, b = ins
            if a is None or b is None:
                return None
            return z3.If(s == 1, a, b)
        raise Unsupported(f"operator {op}/{len(ins)}")

    # ---------------------------------------------------------------- memories
    def mem_rows(self, midx):
        m = self.nl.cells[midx]
        rows = []
        for r in range(m.depth):
            key = ("mem", midx, r)
            if key not in self.state:
                self.state[key] = self.bv(f"mem{midx}_{r}", m.width)
                self.init[key] = m.init[r]
            rows.append(self.state[key])
        return rows

    def mem_read(self, midx, addr, rows=None):
        rows = rows or self.mem_rows(midx)
        w = rows[0].size()
        if addr is None:
            return rows[0]
        r = z3.BitVecVal(0, w)  # out-of-range read: Amaranth's simulator returns 0
        for i in reversed(range(len(rows))):
            if i >= (1 << addr.size()):
                continue
            r = z3.If(addr == z3.BitVecVal(i, addr.size()), rows[i], r)
        return r

    def _build(self):
        nl = self.nl
        for idx, c in enumerate(nl.cells):
            if isinstance(c, _nir.Memory) and c.width > 0:
                self.mem_rows(idx)
        for idx in range(len(nl.cells)):
            self.cell(idx)
        write_ports = {}
        for idx, c in enumerate(nl.cells):
            if isinstance(c, _nir.SyncWritePort):
                if c.clk_edge != "pos":
                    raise Unsupported("negedge write port")
                write_ports.setdefault(c.memory, []).append((idx, c))
        self.write_ports = write_ports
        for idx, c in enumerate(nl.cells):
            if isinstance(c, _nir.Memory) and c.width > 0:
                rows = self.mem_rows(idx)
                new = list(rows)
                for pidx, p in write_ports.get(idx, []):
                    addr = self.val(p.addr)
                    data = self.val(p.data)
                    en = self.val(p.en)
                    for r in range(c.depth):
                        if addr is None:
                            hit = z3.BoolVal(r == 0)
                        elif r >= (1 << addr.size()):
                            continue
                        else:
                            hit = addr == z3.BitVecVal(r, addr.size())
                        merged = (new[r] & ~en) | (data & en)
                        new[r] = z3.If(hit, merged, new[r])
                for r in range(c.depth):
                    self.next[("mem", idx, r)] = new[r]
                self.mem_next_rows[idx] = new
        for idx, c in enumerate(nl.cells):
            if isinstance(c, _nir.FlipFlop) and len(c.data) > 0:
                self.next[("ff", idx)] = self.val(c.data)
            if isinstance(c, _nir.SyncReadPort) and c.width > 0:
                addr = self.val(c.addr)
                en = self.net(c.en) == 1
                # Amaranth semantics (sim/_pyrtl.py): data = mem[addr] (0 when out of range); then, for each
                # transparent write port in order, if addr == write addr the written bits are bypassed —
                # also when the common address is out of range.
                data = self.mem_read(c.memory, addr)
                for pidx, p in write_ports.get(c.memory, []):
                    if pidx in c.transparent_for:
                        waddr = self.val(p.addr)
                        wdata = self.val(p.data)
                        wen = self.val(p.en)
                        same = z3.BoolVal(True) if addr is None else addr == waddr
                        data = z3.If(same, (data & ~wen) | (wdata & wen), data)
                self.next[("rp", idx)] = z3.If(en, data, self.state[("rp", idx)])

    # ---------------------------------------------------------------- Amaranth-level access
    def nets(self, value):
        """NIR nets of an Amaranth value built from Signals, slices, concatenations and constants."""
        v = _ast.Value.cast(value)
        if isinstance(v, _ast.Signal):
            if v not in self.nl.signals:
                raise KeyError(f"signal {v.name!r} is not part of the netlist")
            return list(self.nl.signals[v])
        if isinstance(v, _ast.Const):
            return [_nir.Net.from_const((v.value >> i) & 1) for i in range(len(v))]
        if isinstance(v, _ast.Slice):
            return self.nets(v.value)[v.start : v.stop]
        if isinstance(v, _ast.Concat):
            out = []
            for p in v.parts:
                out.extend(self.nets(p))
            return out
        if isinstance(v, _ast.Operator) and v.operator in ("u", "s") and len(v.operands) == 1:
            return self.nets(v.operands[0])
        raise Unsupported(f"cannot locate nets of {type(v).__name__} expression")

    def sig(self, value):
        """z3 term (this cycle's value) of an Amaranth Signal / slice / concatenation."""
        return self.val(_nir.Value(self.nets(value)))

    def has(self, signal):
        return signal in self.nl.signals

    def is_reg(self, value):
        ns = self.nets(value)
        return len(ns) > 0 and all(
            (not n.is_const) and isinstance(self.nl.cells[n.cell], _nir.FlipFlop) for n in ns
        )

    def nxt(self, value):
        """z3 term of the value a register-backed Amaranth value will hold in the next cycle."""
        data = []
        for n in self.nets(value):
            if n.is_const:
                data.append(n)
                continue
            c = self.nl.cells[n.cell]
            if isinstance(c, _nir.FlipFlop):
                data.append(c.data[n.bit])
            else:
                raise KeyError(f"value is not register-backed (bit driven by {type(c).__name__})")
        return self.val(_nir.Value(data))

    def init_of(self, value):
        r = 0
        for i, n in enumerate(self.nets(value)):
            if n.is_const:
                r |= int(n) << i
                continue
            c = self.nl.cells[n.cell]
            if not isinstance(c, _nir.FlipFlop):
                raise KeyError("value is not register-backed")
            r |= ((c.init >> n.bit) & 1) << i
        return r

    def memory_of(self, port_data):
        """Index of the Memory cell behind a read-port data signal."""
        cells = {n.cell for n in self.nets(port_data) if not n.is_const}
        assert len(cells) == 1, cells
        c = self.nl.cells[cells.pop()]
        assert isinstance(c, (_nir.SyncReadPort, _nir.AsyncReadPort)), type(c)
        return c.memory

    def readport_key(self, port_data):
        cells = {n.cell for n in self.nets(port_data) if not n.is_const}
        assert len(cells) == 1, cells
        idx = cells.pop()
        assert isinstance(self.nl.cells[idx], _nir.SyncReadPort)
        return ("rp", idx)

    def memories(self):
        return {i: c for i, c in enumerate(self.nl.cells) if isinstance(c, _nir.Memory)}

    def state_subst(self, mapping=None):
        """List of (state var, next term) pairs — substituting it turns a formula over S into one over S'."""
        return [(self.state[k], self.next[k]) for k in self.state]

    def primed(self, formula):
        """formula(S) -> formula(S'(S, I)); inputs occurring in `formula` are NOT renamed."""
        return z3.substitute(formula, *self.state_subst())

    def init_subst(self):
        return [(self.state[k], z3.BitVecVal(self.init[k], self.state[k].size())) for k in self.state]

    def at_init(self, formula):
        return z3.substitute(formula, *self.init_subst())


def build_netlist(top, ports):
    """Elaborate `top` with Amaranth's own elaborator and return (fragment, netlist)."""
    frag = Fragment.get(top, None)
    seen = set()
    plist = []
    for p in ports:
        p = _ast.Value.cast(p)
        if not isinstance(p, _ast.Signal):
            raise TypeError(f"port must be a Signal, got {type(p).__name__}")
        if len(p) and id(p) not in seen:
            seen.add(id(p))
            plist.append(p)
    nl = _ir.build_netlist(frag, ports=plist)
    return frag, nl
