"""Obligation generation and discharge (worker side).

A contract module calls ``ctx.prove(name, post, pre=..., assume=..., hw=...)``; the obligation is
``pre ∧ assume ⇒ post`` and is discharged by z3 (unsat of the negation).  ``sat`` is a counterexample,
``unknown`` is undecided.  Nothing else is ever mapped to "violated".
"""

import os
import time
import traceback

import z3

SOLVER_TIMEOUT_MS = int(os.environ.get("VERIF_SOLVER_TIMEOUT_MS", "180000"))


CVC5_TIMEOUT_MS = int(os.environ.get("VERIF_CVC5_TIMEOUT_MS", "30000"))


def cvc5_check(smt2_text):
    """Second opinion on one exported obligation: returns 'unsat' | 'sat' | 'unknown' | 'error: ...' from cvc5 (Python wheel,
    in process) on the SMT-LIB 2 text z3 exported.  Only used to re-discharge obligations z3 reported unsat."""
    try:
        import cvc5
    except Exception as e:  # noqa: BLE001
        return "error: cvc5 not importable: " + str(e)
    try:
        logic = "ALL" if ("Int" in smt2_text or "bv2nat" in smt2_text or "int2bv" in smt2_text) else "QF_BV"
        slv = cvc5.Solver()
        slv.setOption("tlimit-per", str(CVC5_TIMEOUT_MS))
        parser = cvc5.InputParser(slv)
        parser.setStringInput(cvc5.InputLanguage.SMT_LIB_2_6, f"(set-logic {logic})\n" + smt2_text, "obligation")
        sm = parser.getSymbolManager()
        res = "unknown"
        while True:
            cmd = parser.nextCommand()
            if cmd.isNull():
                break
            out = str(cmd.invoke(slv, sm)).strip()
            if out in ("sat", "unsat", "unknown"):
                res = out
        return res
    except Exception as e:  # noqa: BLE001
        return "error: " + str(e)[:200]


def _and(xs):
    xs = [x for x in xs if x is not None]
    if not xs:
        return z3.BoolVal(True)
    return z3.And(*xs) if len(xs) > 1 else xs[0]


def as_list(x):
    if x is None:
        return []
    if isinstance(x, (list, tuple)):
        return list(x)
    return [x]


def short_model(model, limit=40):
    out = {}
    for d in model.decls()[:limit]:
        v = model[d]
        try:
            out[str(d)] = v.as_long()
        except Exception:
            out[str(d)] = str(v)
    return out


class Ctx:
    def __init__(self, prop, cfg, tier, seed):
        self.prop = prop
        self.cfg = cfg
        self.tier = tier
        self.seed = seed
        self.records = []
        self.covers = []
        self.functions = set()
        self.stats = []
        self.xvals = []
        self.assumptions = set()
        self.notes = []
        self.samples = []
        self.bounded = []  # run-time/bounded results (E-RT)
        self.solver_time = 0.0
        self._names = set()
        self._posts = []  # (hw, name, post, assume) of every non-invariant obligation
        self._inv_failed = []  # (record, hw) of failed invariant-preservation obligations
        # thorough tier: every obligation z3 discharges is exported as SMT-LIB 2 and re-discharged by cvc5
        self.recheck = (tier == "thorough" or os.environ.get("VERIF_CVC5") == "1") and os.environ.get("VERIF_CVC5") != "0"

    # -- bookkeeping ---------------------------------------------------------------------------
    def use(self, hw, xval_cycles=None):
        """Register a harness: functions under contract, netlist statistics, translator self-validation."""
        self.functions.update(hw.functions())
        self.stats.append(hw.stats())
        if xval_cycles is None:
            xval_cycles = 24 if self.tier == "quick" else 120
        if xval_cycles:
            t0 = time.time()
            r = hw.xval(xval_cycles, self.seed)
            r["wall_s"] = round(time.time() - t0, 3)
            self.xvals.append(r)
        return hw

    def assume_note(self, text):
        self.assumptions.add(text)

    def _uniq(self, name):
        base = name
        i = 2
        while name in self._names:
            name = f"{base}#{i}"
            i += 1
        self._names.add(name)
        return name

    # -- discharge -----------------------------------------------------------------------------
    def prove(self, name, post, pre=None, assume=None, hw=None, trace_k=None, note=None, invariant=None):
        """Obligation: (pre ∧ assume) ⇒ post.  `pre` = representation invariant etc. (state),
        `assume` = caller obligations / input assumptions (they must also hold along a replay trace)."""
        name = self._uniq(name)
        pre_l = as_list(pre)
        asm_l = as_list(assume)
        if hw is not None:
            asm_l = asm_l + [hw.no_reset()]
        neg = z3.And(_and(pre_l), _and(asm_l), z3.Not(post))
        if invariant is None:
            invariant = name.startswith(("step.wf", "step.inv", "reset.wf"))
        if hw is not None and not invariant:
            self._posts.append((hw, name, post, _and(asm_l)))
        s = z3.Solver()
        s.set("timeout", SOLVER_TIMEOUT_MS)
        s.add(neg)
        t0 = time.time()
        r = s.check()
        dt = time.time() - t0
        self.solver_time += dt
        rec = {"name": name, "cfg": self.cfg, "time_s": round(dt, 4), "backend": "z3-" + z3.get_version_string(), "n_assume": len(as_list(assume))}
        if note:
            rec["note"] = note
        if r == z3.unsat:
            rec["verdict"] = "proved"
            if self.recheck:
                t1 = time.time()
                rec["cvc5"] = cvc5_check(s.to_smt2())
                rec["cvc5_time_s"] = round(time.time() - t1, 4)
                self.solver_time += time.time() - t1
        elif r == z3.unknown:
            rec["verdict"] = "unknown"
            rec["reason"] = s.reason_unknown()
            rec["smt2"] = s.to_smt2()
        else:
            rec["verdict"] = "violated"
            m = s.model()
            rec["model"] = short_model(m, 200)
            if hw is not None:
                try:
                    rec["cex_inputs"] = hw.model_inputs(m)
                    rec["cex_state"] = hw.model_state(m)
                    rec["state_names"] = hw.state_names()
                    self._replay(rec, hw, neg, _and(asm_l), trace_k)
                    if invariant:
                        self._inv_failed.append((rec, hw))
                except Exception:
                    rec["replay_error"] = traceback.format_exc()
        if len(self.samples) < 3 and r == z3.unsat:
            txt = s.to_smt2()
            self.samples.append({"obligation": name, "cfg": self.cfg, "smt2_head": txt[:600], "smt2_len": len(txt)})
        self.records.append(rec)
        return rec["verdict"] == "proved"

    def structural(self, name, ok, backend, detail=None):
        """Obligation decided by a structural decision procedure other than SMT (e.g. Amaranth's netlist cycle check)."""
        name = self._uniq(name)
        rec = {"name": name, "cfg": self.cfg, "time_s": 0.0, "backend": backend, "verdict": "proved" if ok else "violated"}
        if detail:
            rec["detail"] = detail
        if not ok:
            rec["bounded_failures"] = [detail]
        self.records.append(rec)
        return ok

    def _replay(self, rec, hw, bad, assume, trace_k):
        k = trace_k if trace_k is not None else (12 if self.tier == "quick" else 30)
        t0 = time.time()
        found = hw.find_trace(bad, assume=assume, max_k=k, timeout_ms=30000 if self.tier == "quick" else 120000)
        rec["trace_search"] = {"max_k": k, "wall_s": round(time.time() - t0, 2)}
        if found is None:
            rec["trace"] = None
            return
        kk, stim = found
        co = hw.cosim(stim)
        rec["trace"] = {
            "length": kk + 1,
            "inputs": [{hw.port_name(s): v for s, v in d.items()} for d in stim],
            "simulator_observed_last_cycle": co["observed"][-1] if co["observed"] else {},
            "simulator_agrees_with_model": not co["mismatches"],
            "mismatches": co["mismatches"][:5],
        }

    def bmc(self, name, hw, bad, assume=None, k=None, undecided_if_clean=False):
        """Representation-independent bounded search from reset for an input trace reaching `bad` (a formula over state,
        ghost state and inputs). A trace is a violation (replayed on Amaranth's simulator); finding none within k cycles
        is recorded as a *bounded* result, or as undecided when `undecided_if_clean` (the deductive contract could not be
        applied, e.g. because the representation it names is gone)."""
        name = self._uniq(name)
        k = k if k is not None else (8 if self.tier == "quick" else 14)
        t0 = time.time()
        found = hw.find_trace(bad, assume=assume, max_k=k, timeout_ms=60000 if self.tier == "quick" else 240000)
        dt = time.time() - t0
        self.solver_time += dt
        if found is not None:
            kk, stim = found
            co = hw.cosim(stim)
            rec = {"name": name, "cfg": self.cfg, "time_s": round(dt, 3), "backend": "z3-" + z3.get_version_string() + " (bounded search)", "verdict": "violated",
                   "trace": {"length": kk + 1, "inputs": [{hw.port_name(s): v for s, v in d.items()} for d in stim],
                             "simulator_observed_last_cycle": co["observed"][-1] if co["observed"] else {}, "simulator_agrees_with_model": not co["mismatches"], "mismatches": co["mismatches"][:5]}}
            self.records.append(rec)
            return False
        if undecided_if_clean:
            self.records.append({"name": name, "cfg": self.cfg, "time_s": round(dt, 3), "backend": "z3 (bounded search)", "verdict": "unknown",
                                 "reason": f"deductive contract not applicable to this representation; bounded interface search to depth {k} found no violation"})
        else:
            self.bounded_result(name, k + 1, k + 1, [], rule=f"symbolic search over all input sequences of length <= {k + 1} from reset against a ghost specification state (bounded model checking, not a proof)", samples=[{"depth": k + 1}], exhaustive=True)
        return True

    def finish(self):
        """For a failed invariant-preservation obligation, additionally search from reset for an input
        trace after which an interface-level postcondition (ready/result/view step, evaluated on the raw
        state, no invariant assumed) is false."""
        for rec, hw in self._inv_failed:
            posts = [(n, p, a) for (h, n, p, a) in self._posts if h is hw]
            if not posts:
                continue
            try:
                bad = z3.Or(*[z3.And(a, z3.Not(p)) for (_, p, a) in posts])
                assume = _and([a for (_, _, a) in posts])
                k = 10 if self.tier == "quick" else 20
                found = hw.find_trace(bad, assume=assume, max_k=k, timeout_ms=30000)
                if found is None:
                    rec["interface_trace"] = None
                    continue
                kk, stim = found
                co = hw.cosim(stim)
                rec["interface_trace"] = {
                    "length": kk + 1,
                    "inputs": [{hw.port_name(s): v for s, v in d.items()} for d in stim],
                    "simulator_agrees_with_model": not co["mismatches"],
                    "violates_one_of": [n for (n, _, _) in posts],
                    "simulator_observed_last_cycle": co["observed"][-1] if co["observed"] else {},
                }
            except Exception:
                rec["interface_trace_error"] = traceback.format_exc()

    def cover(self, name, formula, hw=None):
        """Vacuity guard: the formula must be satisfiable."""
        name = self._uniq("cover:" + name)
        s = z3.Solver()
        s.set("timeout", SOLVER_TIMEOUT_MS)
        s.add(formula)
        if hw is not None:
            s.add(hw.no_reset())
        t0 = time.time()
        r = s.check()
        dt = time.time() - t0
        self.solver_time += dt
        self.covers.append({"name": name, "cfg": self.cfg, "result": str(r), "time_s": round(dt, 4)})
        return r == z3.sat

    # -- run-time (bounded) contract results ----------------------------------------------------
    def bounded_result(self, name, evaluations, distinct, failures, rule, samples=(), exhaustive=False):
        self.bounded.append(
            {
                "name": name,
                "cfg": self.cfg,
                "evaluations": evaluations,
                "distinct_nontrivial": distinct,
                "failures": list(failures)[:5],
                "n_failures": len(failures),
                "rule": rule,
                "samples": list(samples)[:3],
                "exhaustive": exhaustive,
            }
        )

    def result(self):
        return {
            "cfg": self.cfg,
            "records": self.records,
            "covers": self.covers,
            "functions": sorted(self.functions),
            "stats": self.stats,
            "xvals": self.xvals,
            "assumptions": sorted(self.assumptions),
            "notes": self.notes,
            "samples": self.samples,
            "bounded": self.bounded,
            "solver_time": self.solver_time,
        }
