"""./vrun py -m engine.validate : validates MANIFEST.json and every evidence file against the schemas."""
import json, os, sys, glob
import jsonschema
HERE = os.path.dirname(os.path.dirname(os.path.abspath(__file__)))
ok = True
try:
    jsonschema.validate(json.load(open(os.path.join(HERE, "MANIFEST.json"))), json.load(open("/root/.vp/MANIFEST.schema.json")))
    print("MANIFEST ok")
except Exception as e:
    ok = False; print("MANIFEST INVALID", e)
es = json.load(open("/root/.vp/EVIDENCE.schema.json"))
for p in sorted(glob.glob(os.path.join(HERE, "evidence", "*.json"))):
    try:
        ev = json.load(open(p))
        jsonschema.validate(ev, es)
        cov = ev["coverage"]
        if ev["level"] == "proof" and cov.get("discharged") != cov.get("obligations"):
            raise ValueError(f"proof level: coverage.discharged ({cov.get('discharged')}) != obligations ({cov.get('obligations')})")
        if ev["property_id"] != os.path.basename(p)[:-5]:
            raise ValueError("property_id does not match the file name")
    except Exception as e:
        ok = False; print("INVALID", p, str(e)[:300])
print("evidence files checked:", len(glob.glob(os.path.join(HERE, "evidence", "*.json"))))
sys.exit(0 if ok else 1)
