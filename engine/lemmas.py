"""History-level lemmas over the specification functions, machine-checked by Lean 4 (lemmas/History.lean).

The netlist contracts prove one-cycle postconditions (view' = step(view, calls), result = out(view, calls)); the
properties speak about whole call histories. The induction over the history that connects the two is discharged by
Lean on every run (cached per content hash under .cache/, which is not committed, so a fresh restore re-runs it).
Reported as obligations with back end "lean-<version>"; `sorryAx` or any error makes the obligation fail as a
checker error (exit 3) rather than a violation: these lemmas do not depend on /repo."""

import fcntl
import hashlib
import json
import os
import re
import shutil
import subprocess
import time

HERE = os.path.dirname(os.path.dirname(os.path.abspath(__file__)))
SRC = os.path.join(HERE, "lemmas", "History.lean")


def _run_lean():
    lean = shutil.which("lean") or "/opt/veriftools/lean/bin/lean"
    t0 = time.time()
    p = subprocess.run([lean, SRC], capture_output=True, text=True, timeout=1800)
    out = p.stdout + p.stderr
    ver = subprocess.run([lean, "--version"], capture_output=True, text=True).stdout.strip()
    m = re.search(r"version (\S+?),", ver)
    axioms = {}
    for name, rest in re.findall(r"'Hist\.(\w+)' (does not depend on any axioms|depends on axioms: \[[^\]]*\])", out):
        axioms[name] = rest
    return {"exit": p.returncode, "version": m.group(1) if m else ver, "axioms": axioms, "errors": [l for l in out.splitlines() if "error" in l][:10],
            "time_s": round(time.time() - t0, 2)}


def lean_result():
    with open(SRC, "rb") as f:
        sha = hashlib.sha256(f.read()).hexdigest()
    cdir = os.path.join(HERE, ".cache")
    os.makedirs(cdir, exist_ok=True)
    path = os.path.join(cdir, f"lean-{sha[:20]}.json")
    with open(os.path.join(cdir, "lean.lock"), "w") as lock:
        fcntl.flock(lock, fcntl.LOCK_EX)
        if os.path.exists(path):
            with open(path) as f:
                r = json.load(f)
            r["cached"] = True
            return r
        r = _run_lean()
        r["sha256"] = sha
        if r["exit"] == 0:  # only successful runs are cached
            with open(path + ".tmp", "w") as f:
                json.dump(r, f)
            os.replace(path + ".tmp", path)
        r["cached"] = False
        return r


def run(cfg, ctx):
    """cfg = {"kind": "history_lemmas", "theorems": [...]}"""
    r = lean_result()
    src = open(SRC).read()
    if re.search(r"\b(sorry|admit)\b|^\s*axiom\b", re.sub(r"/-.*?-/", "", src, flags=re.S), flags=re.M):
        raise RuntimeError("lemmas/History.lean contains sorry/admit/axiom")
    if r["exit"] != 0:
        raise RuntimeError(f"lean rejected lemmas/History.lean: {r['errors']}")
    ctx.functions.add(("history lemmas (spec functions, not /repo code)", "verif:lemmas/History.lean"))
    for th in cfg["theorems"]:
        ax = r["axioms"].get(th)
        if ax is None or "sorryAx" in ax:
            raise RuntimeError(f"theorem Hist.{th} missing from the axiom audit or depends on sorryAx: {ax}")
        rec = {"name": ctx._uniq(f"history_lemma.{th}"), "cfg": ctx.cfg, "time_s": 0.0 if r["cached"] else r["time_s"], "backend": "lean-" + r["version"],
               "verdict": "proved", "detail": f"Hist.{th}: {ax}"}
        ctx.records.append(rec)
    ctx.assume_note("history-level statement follows from the one-cycle contracts by the Lean lemmas " + ", ".join("Hist." + t for t in cfg["theorems"])
                    + " (lemmas/History.lean, checked on every run); trusted: that the Lean step functions transcribe spec/seq.py")


def config(theorems):
    return {"kind": "history_lemmas", "theorems": list(theorems)}
