#!/bin/sh
# prints all property ids that have a contract module
cd "$(dirname "$0")/.." && ls contracts | sed -n 's/^c\([0-9][0-9]\)\.py$/C\1/p'
