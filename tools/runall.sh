#!/bin/sh
# usage: tools/runall.sh tier ids...
tier=$1; shift
for p in "$@"; do
  out=$(./vrun check $p --tier $tier 2>&1); code=$?
  echo "$out" | grep "^\[$p\]" | cut -c1-220
  echo "   exit=$code"
  if [ $code -ne 0 ]; then echo "$out" | grep -v "^  File\|^    \|KNOWN-FINDING" | head -12 | cut -c1-250; fi
done
