/-
History-level lemmas over the one-step specification functions that /verif/spec uses as postconditions.

The contracts in /verif/contracts discharge, on the real netlists, obligations of the form
  view(S') = step(view(S), calls of the cycle)      result = out(view(S), calls)      run ⇒ legal(view(S), calls)
The properties are phrased over whole call histories ("returns exactly the written elements in write order with no
loss or duplication", "the count equals acquisitions minus releases since the last clear").  The step from the
one-cycle contract to the history statement is an induction over the history; it is machine-checked here, for the
specification functions, instead of being left as a paper argument.  Lean core only (no Mathlib).

What is trusted: that `step`/`out` below transcribe spec/seq.py and spec/components.py (they are a few lines each
and are quoted next to each definition).
-/

namespace Hist

/-! ## Bounded queue (C14 FIFO/BasicFifo, C17 Forwarder/Pipe, C18 Collector, C29 StreamSource; batch = 1) -/

structure QEv (α : Type) where
  clear : Bool
  read  : Bool
  write : Option α

variable {α : Type}

/-- spec/seq.py `queue_step`:  clear ? [] : drop_head_if_read (view ++ [x if write]) -/
def qstep (q : List α) (e : QEv α) : List α :=
  if e.clear then [] else
    let q1 := q ++ e.write.toList
    if e.read then q1.tail else q1

/-- value returned by `read` in that cycle (Forwarder: the written value when the buffer is empty) -/
def qout (q : List α) (e : QEv α) : List α :=
  if e.read then (q ++ e.write.toList).head?.toList else []

/-- what the `run ⇒ ready` obligations give: read runs only if something can be returned -/
def qlegal (q : List α) (e : QEv α) : Prop := e.read = true → q ++ e.write.toList ≠ []

def qrun : List α → List (QEv α) → List α
  | q, [] => q
  | q, e :: es => qrun (qstep q e) es

def qouts : List α → List (QEv α) → List α
  | _, [] => []
  | q, e :: es => qout q e ++ qouts (qstep q e) es

def qins : List (QEv α) → List α
  | [] => []
  | e :: es => e.write.toList ++ qins es

def qlegalAll : List α → List (QEv α) → Prop
  | _, [] => True
  | q, e :: es => qlegal q e ∧ qlegalAll (qstep q e) es

def noClear (es : List (QEv α)) : Prop := ∀ e ∈ es, e.clear = false

theorem head_tail (l : List α) (h : l ≠ []) : l.head?.toList ++ l.tail = l := by
  cases l with
  | nil => exact absurd rfl h
  | cons a t => simp

/-- One cycle: what was returned, followed by what is still queued, is what was queued followed by what was written. -/
theorem qstep_conserves (q : List α) (e : QEv α) (hc : e.clear = false) (hl : qlegal q e) :
    qout q e ++ qstep q e = q ++ e.write.toList := by
  unfold qout qstep qlegal at *
  cases hr : e.read with
  | false => simp [hc]
  | true =>
    have hne : q ++ e.write.toList ≠ [] := hl hr
    simp only [hc, Bool.false_eq_true, if_false, if_true]
    exact head_tail _ hne

/-- **FIFO order, no loss, no duplication** for every clear-free history from any state:
    the values returned so far followed by the final contents equal the initial contents followed by the values
    written, in order.  In particular the returned values are a prefix of (initial contents ++ writes). -/
theorem queue_history (q : List α) (es : List (QEv α)) (hc : noClear es) (hl : qlegalAll q es) :
    qouts q es ++ qrun q es = q ++ qins es := by
  induction es generalizing q with
  | nil => simp [qouts, qrun, qins]
  | cons e es ih =>
    have hce : e.clear = false := hc e (by simp)
    have hces : noClear es := fun x hx => hc x (by simp [hx])
    obtain ⟨hle, hles⟩ := hl
    have h1 := qstep_conserves q e hce hle
    have h2 := ih (qstep q e) hces hles
    simp only [qouts, qrun, qins]
    rw [List.append_assoc, h2, ← List.append_assoc, h1, List.append_assoc]


/-- corollary used by C19: from an empty queue, the values returned are a prefix of the values written, i.e. the k-th
    value returned is the k-th value written (no reordering, loss or duplication) -/
theorem queue_prefix (es : List (QEv α)) (hc : noClear es) (hl : qlegalAll [] es) :
    qouts [] es = (qins es).take (qouts [] es).length := by
  have h := queue_history [] es hc hl
  simp only [List.nil_append] at h
  rw [← h, List.take_left]

theorem queue_kth (es : List (QEv α)) (hc : noClear es) (hl : qlegalAll [] es) (k : Nat) (hk : k < (qouts [] es).length) :
    (qouts [] es)[k]? = (qins es)[k]? := by
  have h := queue_history [] es hc hl
  simp only [List.nil_append] at h
  rw [← h, List.getElem?_append_left hk]

/-! ## Memory (C21, C22): a read returns the value of the latest completed write to that address -/

/-- one cycle of writes to pairwise distinct rows (the caller obligation of C21-C23), as an association list -/
def mstep' (m : Nat → Nat) (ws : List (Nat × Nat)) : Nat → Nat :=
  fun a => match ws.find? (fun w => w.1 == a) with
    | some w => w.2
    | none => m a

def memrun : (Nat → Nat) → List (List (Nat × Nat)) → (Nat → Nat)
  | m, [] => m
  | m, ws :: rest => memrun (mstep' m ws) rest

/-- the value the history says address a should hold: the data of the last cycle that wrote a, else the initial value -/
def lastWrite (init : Nat) (a : Nat) : List (List (Nat × Nat)) → Nat
  | [] => init
  | ws :: rest =>
    lastWrite (match ws.find? (fun w => w.1 == a) with | some w => w.2 | none => init) a rest

theorem memory_history (m : Nat → Nat) (h : List (List (Nat × Nat))) (a : Nat) :
    memrun m h a = lastWrite (m a) a h := by
  induction h generalizing m with
  | nil => simp [memrun, lastWrite]
  | cons ws rest ih =>
    simp only [memrun, lastWrite]
    rw [ih]
    simp [mstep']

/-- clear empties the queue whatever else happens in the cycle (C14: "even if write ran in the same cycle"). -/
theorem clear_empties (q : List α) (e : QEv α) (h : e.clear = true) : qstep q e = [] := by
  simp [qstep, h]

/-- read-first formulation used for BasicFifo/FIFO (read is only ready when the queue itself is non-empty):
    it coincides with `qstep` on every legal cycle of such a queue. -/
theorem read_first_same (q : List α) (e : QEv α) (hq : e.read = true → q ≠ []) :
    (if e.read then q.tail else q) ++ e.write.toList = (let q1 := q ++ e.write.toList; if e.read then q1.tail else q1) := by
  cases hr : e.read with
  | false => simp
  | true =>
    have := hq hr
    cases q with
    | nil => exact absurd rfl this
    | cons a t => simp

/-- peek never consumes: a cycle without read/clear/write leaves the queue unchanged. -/
theorem idle_keeps (q : List α) : qstep q ⟨false, false, none⟩ = q := by simp [qstep]


/-! ## Batched queue (C15 WideFifo, C27 CircularAllocator as a queue of identifiers, C32 measurers' inner FIFO) -/

structure BEv (α : Type) where
  clear : Bool
  take  : Nat          -- number of elements the read actually removes (the contract proves = min(count, level, read_width))
  write : List α       -- elements the write actually appends (the contract proves = first `count` data elements)

/-- spec/seq.py batched step: clear ? [] : drop n view ++ written -/
def bstep (q : List α) (e : BEv α) : List α := if e.clear then [] else q.drop e.take ++ e.write

def bout (q : List α) (e : BEv α) : List α := q.take e.take

def brun : List α → List (BEv α) → List α
  | q, [] => q
  | q, e :: es => brun (bstep q e) es

def bouts : List α → List (BEv α) → List α
  | _, [] => []
  | q, e :: es => bout q e ++ bouts (bstep q e) es

def bins : List (BEv α) → List α
  | [] => []
  | e :: es => e.write ++ bins es

theorem batched_queue_history (q : List α) (es : List (BEv α)) (hc : ∀ e ∈ es, e.clear = false) :
    bouts q es ++ brun q es = q ++ bins es := by
  induction es generalizing q with
  | nil => simp [bouts, brun, bins]
  | cons e es ih =>
    have hce : e.clear = false := hc e (by simp)
    have h2 := ih (bstep q e) (fun x hx => hc x (by simp [hx]))
    have h3 : bstep q e = q.drop e.take ++ e.write := by simp [bstep, hce]
    simp only [bouts, brun, bins, bout]
    rw [List.append_assoc, h2, h3, ← List.append_assoc, ← List.append_assoc, List.take_append_drop, List.append_assoc]

/-! ## Chain of queues (C28): moving the head of one queue to the tail of the next preserves the in-flight order -/

/-- queues listed from the sink side to the source side; the in-flight sequence is their concatenation -/
def inflight (qs : List (List α)) : List α := qs.flatten

/-- a stage firing between two adjacent queues: `down` (nearer the sink) receives the head of `up` -/
theorem move_preserves (pre post : List (List α)) (down up : List α) (a : α) :
    inflight (pre ++ [down ++ [a], up] ++ post) = inflight (pre ++ [down, a :: up] ++ post) := by
  simp [inflight]

/-- the source pushing at the far end and the sink popping at the near end act on the in-flight sequence as on a queue -/
theorem source_push (pre : List (List α)) (last : List α) (a : α) :
    inflight (pre ++ [last ++ [a]]) = inflight (pre ++ [last]) ++ [a] := by
  simp [inflight]

theorem sink_pop (first : List α) (a : α) (post : List (List α)) :
    inflight ((a :: first) :: post) = a :: inflight (first :: post) := by
  simp [inflight]

/-! ## Up/down counter with clear (C20 Semaphore; C31 HwCounter with `down = 0`) -/

structure CEv where
  clear : Bool
  up    : Nat
  down  : Nat

/-- spec: count' = clear ? 0 : count + up − down   (legal: down ≤ count + up is implied by release.ready ⇔ count>0) -/
def cstep (c : Int) (e : CEv) : Int := if e.clear then 0 else c + e.up - e.down

def crun : Int → List CEv → Int
  | c, [] => c
  | c, e :: es => crun (cstep c e) es

def ups : List CEv → Int
  | [] => 0
  | e :: es => e.up + ups es

def downs : List CEv → Int
  | [] => 0
  | e :: es => e.down + downs es

/-- the count equals acquisitions minus releases over every clear-free history -/
theorem counter_history (c : Int) (es : List CEv) (hc : ∀ e ∈ es, e.clear = false) :
    crun c es = c + ups es - downs es := by
  induction es generalizing c with
  | nil => simp [crun, ups, downs]
  | cons e es ih =>
    have hce : e.clear = false := hc e (by simp)
    have h2 := ih (cstep c e) (fun x hx => hc x (by simp [hx]))
    have h3 : cstep c e = c + e.up - e.down := by simp [cstep, hce]
    simp only [crun, ups, downs]
    rw [h2, h3]
    omega

/-- modular version (registers of width w): stepping modulo m and reducing at the end agree -/
def mstep (m : Nat) (c : Nat) (k : Nat) : Nat := (c + k) % m

def mrun (m : Nat) : Nat → List Nat → Nat
  | c, [] => c
  | c, k :: ks => mrun m (mstep m c k) ks

theorem modcounter_history (m : Nat) (c : Nat) (ks : List Nat) (hc : c < m) :
    mrun m c ks = (c + ks.sum) % m := by
  induction ks generalizing c with
  | nil => simp [mrun, Nat.mod_eq_of_lt hc]
  | cons k ks ih =>
    have hm : 0 < m := Nat.lt_of_le_of_lt (Nat.zero_le _) hc
    have h2 := ih (mstep m c k) (Nat.mod_lt _ hm)
    simp only [mrun, List.sum_cons]
    rw [h2]
    unfold mstep
    rw [Nat.add_mod, Nat.mod_mod, ← Nat.add_mod, Nat.add_assoc]

/-! ## Bounded wait from the ranking invariant (C09, C39)

  The netlist proofs establish, as a one-step invariant with a ghost wait counter w (reset to 0 whenever the requester
  is served or does not request, incremented otherwise):  w ≤ n − 1.  Consequence: no requester waits n consecutive
  cycles. -/

def wstep (w : Nat) (waiting : Bool) : Nat := if waiting then w + 1 else 0

def wrun : Nat → List Bool → Nat
  | w, [] => w
  | w, b :: bs => wrun (wstep w b) bs

theorem all_waiting_counts (w : Nat) (bs : List Bool) (h : ∀ b ∈ bs, b = true) : wrun w bs = w + bs.length := by
  induction bs generalizing w with
  | nil => simp [wrun]
  | cons b bs ih =>
    have hb : b = true := h b (by simp)
    have h2 := ih (wstep w b) (fun x hx => h x (by simp [hx]))
    have h3 : wstep w b = w + 1 := by simp [wstep, hb]
    simp only [wrun, List.length_cons]
    rw [h2, h3]
    omega

/-- if the invariant bounds the counter by n−1 at every point of every history, a requester cannot be kept waiting
    for n consecutive cycles (so it is served within n cycles) -/
theorem served_within (n : Nat) (bs : List Bool) (hlen : bs.length = n) (hn : 0 < n)
    (hinv : wrun 0 bs ≤ n - 1) : ¬ (∀ b ∈ bs, b = true) := by
  intro h
  have := all_waiting_counts 0 bs h
  omega

end Hist

/-! Axiom audit: printed on every run and parsed by engine/lemmas.py (`sorryAx` must not occur). -/
#print axioms Hist.queue_history
#print axioms Hist.queue_prefix
#print axioms Hist.queue_kth
#print axioms Hist.memory_history
#print axioms Hist.clear_empties
#print axioms Hist.read_first_same
#print axioms Hist.idle_keeps
#print axioms Hist.batched_queue_history
#print axioms Hist.move_preserves
#print axioms Hist.source_push
#print axioms Hist.sink_pop
#print axioms Hist.counter_history
#print axioms Hist.modcounter_history
#print axioms Hist.served_within
