"""Design family for the transaction-core properties (DESIGN.md section 5).

A DesignSpec (plain JSON-able dict) is turned into a real Transactron design through the library's public
API only; at the same time the *specification-level* meaning of every call site and witness statement is
recorded as a condition expression over the design's free inputs, independently of the library's own
bookkeeping (CtrlPath, MethodMap, conflict graph).

DesignSpec
  {"items": [Item...], "relations": [Rel...], "scheduler": "eager"|"rr"}
  Item (top-level, defined in this order):
    {"k":"method", "name", "iw", "ow", "nonexclusive", "combiner": None|"or"|"count", "validate": bool,
     "single_caller": bool, "ready": "free"|"one"|["run_or", other]|["run_and", other], "out": "free"|"inc", "body": Block}
    {"k":"alias", "name", "of": name, "via": "provide"|"methods"}
    {"k":"trans", "name", "ready": "free"|"one", "body": Block}
  Block = [Stmt...]
  Stmt:
    {"k":"call", "m": name, "en": bool, "arg": "free"|"const"|["ret", idx]}     (idx: index of an earlier call in the same body)
    {"k":"if", "branches": [Block...], "else": Block|None}
    {"k":"switch", "w": int, "cases": [[pattern, Block]...], "default": Block|None}
    {"k":"fsm", "states": [Block...]}
    {"k":"wit", "dom": "comb"|"av_comb"|"top_comb"|"sync"}
    {"k":"method", ...}   nested method definition        {"k":"trans", ...}   nested transaction
    {"k":"cond", "nonblocking": bool, "priority": bool, "branches": [Block...], "default": Block|None}
  Rel: ["conflict", a, b, "U"|"L"|"R"] | ["before", a, b, ready_dependent] | ["simultaneous", a, b]
"""

import z3
from amaranth import Elaboratable, Signal, Mux, Cat, C
from amaranth.hdl import _ast
from transactron import TModule, Method, Methods, Transaction, def_method, TransactionManager
from transactron.core import Priority
from transactron.core.schedulers import eager_deterministic_cc_scheduler, trivial_roundrobin_cc_scheduler
from transactron.core.context import TransactronContextElaboratable
from transactron.lib.simultaneous import condition
from transactron.utils.amaranth_ext.functions import popcount, or_value

from engine.hw import HW, Recorder

VALIDATE_BAD = 3  # validate_arguments predicate: x != 3 (on the argument field)


# ------------------------------------------------------------------------------------------------
# condition expressions (spec level)
def c_and(*xs):
    xs = [x for x in xs if x != ("true",)]
    if not xs:
        return ("true",)
    return ("and", list(xs)) if len(xs) > 1 else xs[0]


def c_not(x):
    return ("not", x)


def c_or(*xs):
    return ("or", list(xs))


def ev(expr, hw):
    k = expr[0]
    if k == "true":
        return z3.BoolVal(True)
    if k == "sig":
        return hw.b(expr[1])
    if k == "not":
        return z3.Not(ev(expr[1], hw))
    if k == "and":
        return z3.And(*[ev(e, hw) for e in expr[1]])
    if k == "or":
        return z3.Or(*[ev(e, hw) for e in expr[1]]) if expr[1] else z3.BoolVal(False)
    if k == "match":
        sel = hw.sig(expr[1])
        cs = []
        pat = expr[2]
        for i, ch in enumerate(pat):
            b = len(pat) - 1 - i
            if ch != "-":
                cs.append(z3.Extract(b, b, sel) == int(ch))
        return z3.And(*cs) if cs else z3.BoolVal(True)
    raise ValueError(k)


class Site:
    def __init__(self, sid, caller, callee_name, target, cond, argp, retp, en_sig):
        self.sid = sid
        self.caller = caller  # BodyInfo
        self.callee_name = callee_name  # name used at the call (may be an alias)
        self.target = target  # name of the defining method
        self.cond = cond  # spec-level condition inside the caller body (includes enable_call)
        self.argp = argp  # probe Signal holding the argument expression (None if no argument)
        self.retp = retp  # probe Signal holding what the caller got back (None if no result)
        self.en_sig = en_sig


class BodyInfo:
    def __init__(self, name, kind, spec, parent, outer_cond):
        self.name = name
        self.kind = kind  # "T" | "M"
        self.spec = spec
        self.parent = parent  # BodyInfo of the enclosing body (nested definitions) or None
        self.outer_cond = outer_cond  # ordinary conditions around the definition (outside the body)
        self.obj = None  # Transaction / Method
        self.sites = []
        self.ready_in = None  # free ready input (or None)
        self.out_in = None
        self.branch_of = None  # (CondInfo, index) for the internal transactions of condition()


class Wit:
    def __init__(self, wid, body, dom, cond, sig):
        self.wid, self.body, self.dom, self.cond, self.sig = wid, body, dom, cond, sig


class CondInfo:
    def __init__(self, body, spec, outer_cond):
        self.body = body  # enclosing BodyInfo
        self.spec = spec
        self.outer_cond = outer_cond
        self.conds = []  # condition expr of each explicit branch
        self.wits = []  # witness signal of each branch (incl. default)
        self.callees = []  # per branch: names of methods called directly (static)
        self.has_default = False


class DesignTop(Elaboratable):
    def __init__(self, spec):
        self.spec = spec
        self.inputs = []
        self.outputs = []
        self.bodies = {}  # name -> BodyInfo
        self.aliases = {}  # alias name -> target name
        self.sites = []
        self.wits = []
        self.conds = []
        self.fsm_probes = []
        self.methods = {}
        self._n = 0

    # -- helpers -------------------------------------------------------------------------------
    def new_in(self, name, width=1):
        self._n += 1
        s = Signal(width, name=f"{name}_{self._n}")
        self.inputs.append(s)
        return s

    def new_out(self, name, width=1, like=None):
        self._n += 1
        s = Signal.like(like, name=f"{name}_{self._n}") if like is not None else Signal(width, name=f"{name}_{self._n}")
        self.outputs.append(s)
        return s

    def resolve(self, name):
        while name in self.aliases:
            name = self.aliases[name]
        return name

    def _all_method_specs(self, items):
        for it in items:
            if it["k"] in ("method", "alias"):
                yield it
            if it["k"] in ("method", "trans"):
                yield from self._all_method_specs_block(it["body"])

    def _all_method_specs_block(self, block):
        for st in block:
            k = st["k"]
            if k in ("method", "trans"):
                if k == "method":
                    yield st
                yield from self._all_method_specs_block(st["body"])
            elif k == "if":
                for b in st["branches"]:
                    yield from self._all_method_specs_block(b)
                if st.get("else"):
                    yield from self._all_method_specs_block(st["else"])
            elif k == "switch":
                for _, b in st["cases"]:
                    yield from self._all_method_specs_block(b)
                if st.get("default"):
                    yield from self._all_method_specs_block(st["default"])
            elif k == "fsm":
                for b in st["states"]:
                    yield from self._all_method_specs_block(b)
            elif k == "cond":
                for b in st["branches"]:
                    yield from self._all_method_specs_block(b)
                if st.get("default"):
                    yield from self._all_method_specs_block(st["default"])

    @staticmethod
    def _layouts(ms):
        i = [("x", ms["iw"])] if ms.get("iw", 0) else []
        o = [("y", ms["ow"])] if ms.get("ow", 0) else []
        return i, o

    # -- elaboration ---------------------------------------------------------------------------
    def elaborate(self, platform):
        m = TModule()
        self.m = m
        self.subm = TModule()  # a second module: items with "mod": 1 are defined there (control paths of different modules)
        spec = self.spec
        # 1. create all Method objects up front (calls may precede definitions)
        mspecs = {}
        for ms in self._all_method_specs(spec["items"]):
            mspecs[ms["name"]] = ms
        for name, ms in mspecs.items():
            if ms["k"] == "alias":
                continue
            i, o = self._layouts(ms)
            self.methods[name] = Method(name=name, i=i, o=o)
        for name, ms in mspecs.items():
            if ms["k"] == "alias":
                tgt = ms["of"]
                while mspecs[tgt]["k"] == "alias":
                    tgt = mspecs[tgt]["of"]
                i, o = self._layouts(mspecs[tgt])
                if ms.get("via") == "methods":
                    self.methods[name] = Methods(1, name=name, i=i, o=o)
                else:
                    self.methods[name] = Method(name=name, i=i, o=o)
                self.aliases[name] = ms["of"]
        self.mspecs = mspecs
        # 2. define items in order
        for it in spec["items"]:
            mm = self.subm if it.get("mod") else m
            if it["k"] == "method":
                self._def_method(mm, it, None, ("true",))
            elif it["k"] == "trans":
                self._def_trans(mm, it, None, ("true",))
            elif it["k"] == "alias":
                src = self.methods[it["name"]]
                dst = self.methods[it["of"]]
                if isinstance(src, Methods):
                    src.provide([dst[0] if isinstance(dst, Methods) else dst])
                else:
                    src.provide(dst[0] if isinstance(dst, Methods) else dst)
        # 3. relations
        for rel in spec.get("relations", []):
            a = self._relobj(rel[1])
            b = self._relobj(rel[2])
            if rel[0] == "conflict":
                a.add_conflict(b, {"U": Priority.UNDEFINED, "L": Priority.LEFT, "R": Priority.RIGHT}[rel[3]])
            elif rel[0] == "before":
                a.schedule_before(b, ready_dependent=bool(rel[3]))
            elif rel[0] == "simultaneous":
                a.simultaneous(b)
        m.submodules.second_module = self.subm
        return m

    def _relobj(self, name):
        if name in self.bodies and self.bodies[name].kind == "T":
            return self.bodies[name].obj
        o = self.methods[name]
        return o[0] if isinstance(o, Methods) else o

    def _ready_expr(self, bi, rs):
        if rs == "one" or rs is None:
            return C(1)
        if rs == "free":
            bi.ready_in = self.new_in(f"rdy_{bi.name}")
            return bi.ready_in
        kind, other = rs
        bi.ready_in = self.new_in(f"rdy_{bi.name}")
        orun = self._relobj(other).run
        bi.ready_run_of = (kind, other)
        return (bi.ready_in | orun) if kind == "run_or" else (bi.ready_in & orun)

    def _def_trans(self, m, ts, parent, outer_cond):
        bi = BodyInfo(ts["name"], "T", ts, parent, outer_cond)
        self.bodies[ts["name"]] = bi
        t = Transaction(name=ts["name"])
        bi.obj = t
        with t.body(m, ready=self._ready_expr(bi, ts.get("ready", "free"))):
            self._block(m, ts["body"], bi, ("true",))
        return bi

    def _def_method(self, m, ms, parent, outer_cond):
        bi = BodyInfo(ms["name"], "M", ms, parent, outer_cond)
        self.bodies[ms["name"]] = bi
        meth = self.methods[ms["name"]]
        bi.obj = meth
        kwargs = {}
        if ms.get("nonexclusive"):
            kwargs["nonexclusive"] = True
        if ms.get("single_caller"):
            kwargs["single_caller"] = True
        comb = ms.get("combiner")
        if comb == "or":
            kwargs["combiner"] = lambda mm, args, runs: {"x": or_value([Mux(runs[i], args[i].x, 0) for i in range(len(args))])}
        elif comb == "count":
            iw_ = ms.get("iw", 0)
            kwargs["combiner"] = lambda mm, args, runs: {"x": (popcount(runs) + C(0, iw_))[:iw_]}
        if ms.get("validate"):
            kwargs["validate_arguments"] = lambda x: x != VALIDATE_BAD
        ow = ms.get("ow", 0)
        iw = ms.get("iw", 0)
        if ow:
            bi.out_in = self.new_in(f"out_{bi.name}", ow)
        ready = self._ready_expr(bi, ms.get("ready", "free"))
        top = self

        if iw:

            @def_method(m, meth, ready=ready, **kwargs)
            def _(x):
                top._block(m, ms["body"], bi, ("true",))
                if ow:
                    return {"y": (bi.out_in + x) if ms.get("out") == "inc" else bi.out_in}

        else:

            @def_method(m, meth, ready=ready, **kwargs)
            def _():
                top._block(m, ms["body"], bi, ("true",))
                if ow:
                    return {"y": bi.out_in}

        return bi

    def _full_outer(self, bi):
        """ordinary conditions around everything on the definition path of body bi (outside bi itself)"""
        return bi.outer_cond

    def _block(self, m, block, bi, cond):
        """cond: ordinary conditions accumulated inside the current body (spec level)."""
        rets = []
        for st in block:
            k = st["k"]
            if k == "call":
                self._call(m, st, bi, cond, rets)
            elif k == "wit":
                self._wit(m, st, bi, cond)
            elif k == "if":
                cs = [self.new_in("c") for _ in st["branches"]]
                prev = []
                for i, (c, b) in enumerate(zip(cs, st["branches"])):
                    bc = c_and(cond, *[c_not(("sig", p)) for p in prev], ("sig", c))
                    if i == 0:
                        with m.If(c):
                            self._block(m, b, bi, bc)
                    else:
                        with m.Elif(c):
                            self._block(m, b, bi, bc)
                    prev.append(c)
                if st.get("else") is not None:
                    with m.Else():
                        self._block(m, st["else"], bi, c_and(cond, *[c_not(("sig", p)) for p in prev]))
            elif k == "switch":
                sel = self.new_in("sel", st["w"])
                prevp = []
                with m.Switch(sel):
                    for pat, b in st["cases"]:
                        bc = c_and(cond, *[c_not(("match", sel, p)) for p in prevp], ("match", sel, pat))
                        with m.Case(pat):
                            self._block(m, b, bi, bc)
                        prevp.append(pat)
                    if st.get("default") is not None:
                        with m.Default():
                            self._block(m, st["default"], bi, c_and(cond, *[c_not(("match", sel, p)) for p in prevp]))
            elif k == "fsm":
                n = len(st["states"])
                self._n += 1
                with m.FSM(name=f"fsm{self._n}") as fsm:
                    probes = []
                    for i, b in enumerate(st["states"]):
                        pr = self.new_out(f"ongoing{i}")
                        probes.append(pr)
                        with m.State(f"S{i}"):
                            self._block(m, b, bi, c_and(cond, ("sig", pr)))
                            adv = self.new_in("adv")
                            with m.If(adv):
                                m.next = f"S{(i + 1) % n}"
                    for i, pr in enumerate(probes):
                        m.d.top_comb += pr.eq(fsm.ongoing(f"S{i}"))
                    self.fsm_probes.append(probes)
            elif k == "method":
                self._def_method(m, st, bi, c_and(self._inner_total(bi, cond)))
            elif k == "trans":
                self._def_trans(m, st, bi, c_and(self._inner_total(bi, cond)))
            elif k == "cond":
                self._cond(m, st, bi, cond)
            else:
                raise ValueError(k)

    def _inner_total(self, bi, cond):
        """all ordinary conditions from the outermost level down to this point"""
        return c_and(bi.outer_cond, cond)

    def _call(self, m, st, bi, cond, rets):
        name = st["m"]
        target = self.resolve(name)
        ms = self.mspecs[target]
        meth = self.methods[name]
        iw, ow = ms.get("iw", 0), ms.get("ow", 0)
        argexpr = None
        if iw:
            a = st.get("arg", "free")
            if a == "free":
                argexpr = self.new_in("arg", iw)
            elif a == "const":
                argexpr = C(1, iw)
            else:
                prev = rets[a[1]] if a[1] < len(rets) and rets[a[1]] is not None else None
                argexpr = (prev.y ^ 1)[:iw] if prev is not None and len(prev.y) >= iw else self.new_in("arg", iw)
        en = self.new_in("en") if st.get("en") else None
        kwargs = {}
        if en is not None:
            kwargs["enable_call"] = en
        if iw:
            ret = meth(m, x=argexpr, **kwargs)
        else:
            ret = meth(m, **kwargs)
        rets.append(ret if ow else None)
        argp = retp = None
        if iw:
            argp = self.new_out("argp", iw)
            m.d.top_comb += argp.eq(argexpr)
        if ow:
            retp = self.new_out("retp", ow)
            m.d.top_comb += retp.eq(ret.y)
        scond = c_and(cond, ("sig", en)) if en is not None else cond
        s = Site(len(self.sites), bi, name, target, scond, argp, retp, en)
        self.sites.append(s)
        bi.sites.append(s)

    def _wit(self, m, st, bi, cond):
        dom = st["dom"]
        if dom == "sync":
            sig = self.new_out("wreg", 2)
            m.d.sync += sig.eq(sig + 1)
        else:
            sig = self.new_out("w_" + dom)
            m.d[dom] += sig.eq(1)
        self.wits.append(Wit(len(self.wits), bi, dom, cond, sig))

    def _cond(self, m, st, bi, cond):
        ci = CondInfo(bi, st, cond)
        self.conds.append(ci)
        total_outer = self._inner_total(bi, cond)
        with condition(m, nonblocking=st.get("nonblocking", False), priority=st.get("priority", False)) as branch:
            for i, b in enumerate(st["branches"]):
                c = self.new_in("bc")
                ci.conds.append(("sig", c))
                with branch(c):
                    self._cond_branch(m, b, bi, ci, total_outer, i)
            if st.get("default") is not None:
                ci.has_default = True
                with branch():
                    self._cond_branch(m, st["default"], bi, ci, total_outer, len(st["branches"]))

    def _cond_branch(self, m, block, bi, ci, total_outer, idx):
        # the branch body is an internal nested transaction of condition(); treat it as a body of its own
        from transactron.core import Body

        inner = Body.get()
        name = f"{bi.name}#cond{len(self.conds) - 1}.{idx}"
        nbi = BodyInfo(name, "T", {"name": name, "body": block}, bi, total_outer)
        nbi.obj = inner  # a Body (has .run/.ready)
        nbi.branch_of = (ci, idx)
        self.bodies[name] = nbi
        w = self.new_out("w_branch")
        m.d.comb += w.eq(1)
        ci.wits.append(w)
        self._block(m, block, nbi, ("true",))
        ci.callees.append(sorted({s.target for s in nbi.sites}))


class Built:
    """A DesignSpec elaborated with the real manager, plus its netlist transition system."""

    def __init__(self, spec, capture=()):
        self.spec = spec
        self.top_inner = DesignTop(spec)
        sched = trivial_roundrobin_cc_scheduler if spec.get("scheduler") == "rr" else eager_deterministic_cc_scheduler
        self.manager = TransactionManager(sched)
        self.top = TransactronContextElaboratable(self.top_inner, transaction_manager=self.manager)
        from amaranth.hdl._ir import Fragment

        rec = Recorder(tuple(capture) + (TransactionManager,))
        with rec:
            frag = Fragment.get(self.top, None)
        d = self.top_inner
        outs = list(d.outputs)
        # make run/ready/data of every body observable
        for bi in d.bodies.values():
            o = bi.obj
            outs += [o.run, o.ready]
            if bi.kind == "M" and bi.branch_of is None:
                for v in (o.data_in, o.data_out):
                    if len(_ast.Value.cast(v)):
                        outs.append(_ast.Value.cast(v))
        for name, mo in d.methods.items():
            mm = mo[0] if isinstance(mo, Methods) else mo
            outs += [mm.run, mm.ready]
        self.hw = HW(frag, d.inputs, outs)
        self.hw.rec = rec
        self.d = d

    # convenience ------------------------------------------------------------------------------
    def run(self, name):
        return self.hw.b(self.d.bodies[name].obj.run)

    def ready(self, name):
        return self.hw.b(self.d.bodies[name].obj.ready)

    def cond(self, expr):
        return ev(expr, self.hw)

    def active(self, site):
        return z3.And(self.run(site.caller.name), self.cond(site.cond))
