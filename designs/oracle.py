"""Specification-level semantics of a built design (DESIGN.md section 5) — the oracle for C01–C13.

Everything here is computed from the DesignSpec structure recorded by designs/build.py (bodies, call sites
with their spec-level conditions, relations) and small SAT queries over *those* conditions; it does not look
at MethodMap, CtrlPath, the conflict graph or the priority order of the library."""

import itertools

import z3

from .build import ev, VALIDATE_BAD


class FakeHW:
    """Stand-in used when a design does not elaborate: every condition signal is an independent z3 variable."""

    def __init__(self):
        self.vars = {}

    def _v(self, sig):
        k = id(sig)
        if k not in self.vars:
            self.vars[k] = z3.BitVec(f"fake_{sig.name}_{len(self.vars)}", len(sig))
        return self.vars[k]

    def sig(self, sig):
        return self._v(sig)

    def b(self, sig):
        return self._v(sig) == 1


class Unbuilt:
    def __init__(self, d, spec):
        self.d, self.spec, self.hw = d, spec, FakeHW()


class Oracle:
    def __init__(self, built):
        self.b = built
        self.d = built.d
        self.hw = built.hw
        d = self.d
        self.bodies = d.bodies
        self.sites_by_target = {}
        for s in d.sites:
            self.sites_by_target.setdefault(s.target, []).append(s)
        self.transactions = [n for n, bi in d.bodies.items() if bi.kind == "T"]
        self.methods = [n for n, bi in d.bodies.items() if bi.kind == "M"]

    # -- static structure ----------------------------------------------------------------------
    def callees(self, name):
        return sorted({s.target for s in self.bodies[name].sites})

    def tree(self, name, _seen=None):
        """methods in the static call tree of body `name` (conditions and enable_call ignored)"""
        seen = set()
        stack = [name]
        while stack:
            n = stack.pop()
            for c in self.callees(n):
                if c not in seen:
                    seen.add(c)
                    stack.append(c)
        return sorted(seen)

    def has_recursion(self):
        for mname in self.methods:
            if mname in self.tree(mname):
                return True
        return False

    def transactions_for(self, name):
        if self.bodies[name].kind == "T":
            return [name]
        return [t for t in self.transactions if name in self.tree(t)]

    def parents_closure(self, names):
        out = set(names)
        for n in list(names):
            p = self.bodies[n].parent
            while p is not None:
                out.add(p.name)
                p = p.parent
        return out

    def spec(self, name):
        return self.bodies[name].spec

    def exclusive(self, mname):
        return not self.spec(mname).get("nonexclusive", False)

    # -- hypothetical activity (for SAT queries about what *could* run together) -----------------
    def hyp(self, roots_true, roots_false=()):
        """Returns (run: name -> z3 Bool, act: site -> z3 Bool, side constraints) where the `run` of
        top-level-or-nested transactions in roots_true is True, in roots_false False, other transactions
        get fresh variables; methods run iff one of their sites is active (and, if nested, their parent
        runs and the conditions around the definition hold)."""
        hw = self.hw
        run = {}
        cons = []
        for t in self.transactions:
            if t in roots_true:
                run[t] = z3.BoolVal(True)
            elif t in roots_false:
                run[t] = z3.BoolVal(False)
            else:
                run[t] = z3.Bool(f"hyp_run_{t}")
        memo = {}

        def mrun(mname, stack=()):
            if mname in memo:
                return memo[mname]
            if mname in stack:
                return z3.BoolVal(False)
            terms = []
            for s in self.sites_by_target.get(mname, []):
                terms.append(z3.And(brun(s.caller.name, stack + (mname,)), ev(s.cond, hw)))
            r = z3.Or(*terms) if terms else z3.BoolVal(False)
            bi = self.bodies[mname]
            if bi.parent is not None:
                r = z3.And(r, brun(bi.parent.name, stack + (mname,)), ev(bi.outer_cond, hw))
            memo[mname] = r
            return r

        def brun(name, stack=()):
            return run[name] if self.bodies[name].kind == "T" else mrun(name, stack)

        for t in self.transactions:
            bi = self.bodies[t]
            if bi.parent is not None:
                cons.append(z3.Implies(run[t], z3.And(brun(bi.parent.name), ev(bi.outer_cond, hw))))
            else:
                cons.append(z3.Implies(run[t], ev(bi.outer_cond, hw)))
            if bi.branch_of is not None:
                ci, idx = bi.branch_of
                c = ev(ci.conds[idx], hw) if idx < len(ci.conds) else z3.Not(z3.Or(*[ev(x, hw) for x in ci.conds]))
                cons.append(z3.Implies(run[t], c))
        act = {s.sid: z3.And(brun(s.caller.name), ev(s.cond, hw)) for s in self.d.sites}
        return run, act, cons, brun

    def _sat(self, *fs):
        s = z3.Solver()
        s.add(*fs)
        if isinstance(self.hw, FakeHW):
            # probes of one FSM are mutually exclusive (with a real netlist they are functions of the state register)
            for group in self.d.fsm_probes:
                bs = [self.hw.b(p) for p in group]
                for i in range(len(bs)):
                    for j in range(i + 1, len(bs)):
                        s.add(z3.Not(z3.And(bs[i], bs[j])))
        return s.check() == z3.sat

    def double_activation(self, act, cons, within=None):
        """formula: some exclusive method has two distinct active call sites"""
        alts = []
        for mname, sites in self.sites_by_target.items():
            if not self.exclusive(mname):
                continue
            for s1, s2 in itertools.combinations(sites, 2):
                alts.append(z3.And(act[s1.sid], act[s2.sid]))
        return z3.Or(*alts) if alts else z3.BoolVal(False)

    def call_paths(self, root):
        """all call paths (tuples of sites) from body `root`; finite when there is no recursion"""
        out = []

        def rec(name, path, seen):
            for s in self.bodies[name].sites:
                if s.target in seen:
                    continue
                p = path + (s,)
                out.append(p)
                rec(s.target, p, seen | {s.target})

        rec(root, (), {root})
        return out

    def root_double_call(self, root):
        """Does the call tree of `root` reach an exclusive method through two distinct call paths that can be
        active together (not in different alternatives of one control structure)?"""
        hw = self.hw
        by_target = {}
        for p in self.call_paths(root):
            by_target.setdefault(p[-1].target, []).append(p)
        for target, paths in by_target.items():
            if not self.exclusive(target):
                continue
            for p1, p2 in itertools.combinations(paths, 2):
                f = z3.And(*[ev(s.cond, hw) for s in p1 + p2])
                if self._sat(f):
                    return True
        return False

    def method_conflict(self, t1, t2):
        """SpecConf through shared exclusive methods: t1 and t2 running (nobody else) can double-activate."""
        need = self.parents_closure([t1, t2]) & set(self.transactions)
        others = [t for t in self.transactions if t not in need]
        run, act, cons, _ = self.hyp(need, others)
        return self._sat(*cons, self.double_activation(act, cons))

    def direct_method_conflict(self, t1, t2):
        """SpecConf attributed to the two transactions themselves: with t1, t2 and their enclosing transactions
        running (nobody else), some exclusive method has two distinct active call sites, one reached through the
        calls of t1 and the other through the calls of t2.  `method_conflict` also accepts a double activation
        that is caused by an enclosing transaction alone (enough for "never run together", since a nested
        transaction only runs with its parent, but not a reason for an edge of the conflict graph)."""
        hw = self.hw
        need = self.parents_closure([t1, t2]) & set(self.transactions)
        others = [t for t in self.transactions if t not in need]
        run, act, cons, brun = self.hyp(need, others)

        def reach_from(root):
            memo = {}

            def r(name, stack=()):
                if name == root:
                    return z3.BoolVal(True)
                bi = self.bodies[name]
                if bi.kind == "T":
                    return z3.BoolVal(False)
                if name in memo:
                    return memo[name]
                if name in stack:
                    return z3.BoolVal(False)
                terms = [z3.And(r(s.caller.name, stack + (name,)), ev(s.cond, hw)) for s in self.sites_by_target.get(name, [])]
                f = z3.Or(*terms) if terms else z3.BoolVal(False)
                if bi.parent is not None:
                    f = z3.And(f, brun(bi.parent.name), ev(bi.outer_cond, hw))
                memo[name] = f
                return f

            return {s.sid: z3.And(r(s.caller.name), ev(s.cond, hw)) for s in self.d.sites}

        a1, a2 = reach_from(t1), reach_from(t2)
        alts = []
        for mname, sites in self.sites_by_target.items():
            if not self.exclusive(mname):
                continue
            for s1, s2 in itertools.permutations(sites, 2):
                alts.append(z3.And(a1[s1.sid], a2[s2.sid]))
        return self._sat(*cons, z3.Or(*alts)) if alts else False

    def explicit_conflicts(self):
        """lifted add_conflict relations: set of frozenset({t1, t2}) plus the priority-directed pairs (hi, lo)"""
        pairs = set()
        prio = set()
        for rel in self.b.spec.get("relations", []):
            if rel[0] != "conflict":
                continue
            a, bname = self.d.resolve(rel[1]) if rel[1] not in self.bodies else rel[1], self.d.resolve(rel[2]) if rel[2] not in self.bodies else rel[2]
            for ta in self.transactions_for(a):
                for tb in self.transactions_for(bname):
                    if ta != tb:
                        pairs.add(frozenset((ta, tb)))
                        if rel[3] == "L":
                            prio.add((ta, tb))
                        elif rel[3] == "R":
                            prio.add((tb, ta))
        return pairs, prio

    def spec_conf(self):
        """name -> set of conflicting transaction names"""
        conf = {t: set() for t in self.transactions}
        for t1, t2 in itertools.combinations(self.transactions, 2):
            if self.method_conflict(t1, t2):
                conf[t1].add(t2)
                conf[t2].add(t1)
        pairs, _ = self.explicit_conflicts()
        for p in pairs:
            t1, t2 = tuple(p)
            conf[t1].add(t2)
            conf[t2].add(t1)
        return conf

    def can_both_be_enabled(self, t1, t2):
        need = self.parents_closure([t1, t2]) & set(self.transactions)
        run, act, cons, _ = self.hyp(need, [])
        return self._sat(*cons)

    # -- enabledness (right-hand side of C03) ------------------------------------------------------
    def ready_deps(self, name):
        """bodies that `name` is ready-dependent on: the enclosing body; sources of schedule_before(ready_dependent)"""
        deps = set()
        bi = self.bodies[name]
        if bi.parent is not None:
            deps.add(bi.parent.name)
        for rel in self.b.spec.get("relations", []):
            if rel[0] == "before" and rel[3]:
                end = self.d.resolve(rel[2]) if rel[2] not in self.bodies else rel[2]
                if end == name:
                    deps.add(self.d.resolve(rel[1]) if rel[1] not in self.bodies else rel[1])
        return deps

    def enabled(self, t):
        """z3 formula: transaction t is fully enabled in this cycle (on the real signals)."""
        hw = self.hw
        b = self.b
        parts = [b.ready(t)]
        tree = self.tree(t)
        for mname in tree:
            parts.append(b.ready(mname))
        for body in [t] + tree:
            for dep in self.ready_deps(body):
                parts.append(b.run(dep))
        # validators: for call sites that would be active if t ran
        memo = {}

        def hrun(name, stack=()):
            if name == t:
                return z3.BoolVal(True)
            if self.bodies[name].kind == "T":
                return z3.BoolVal(False)
            if name in memo:
                return memo[name]
            if name in stack:
                return z3.BoolVal(False)
            terms = [z3.And(hrun(s.caller.name, stack + (name,)), ev(s.cond, hw)) for s in self.sites_by_target.get(name, [])]
            memo[name] = z3.Or(*terms) if terms else z3.BoolVal(False)
            return memo[name]

        for s in self.d.sites:
            if s.target in tree and self.spec(s.target).get("validate") and (s.caller.name == t or s.caller.name in tree):
                would = z3.And(hrun(s.caller.name), ev(s.cond, hw))
                parts.append(z3.Implies(would, hw.sig(s.argp) != VALIDATE_BAD))
        return z3.And(*parts)

    # -- well-formedness -----------------------------------------------------------------------------
    def priority_cycle(self):
        """cycle in the lifted priority relation (add_conflict with priority, schedule_before, nesting)"""
        edges = set()
        _, prio = self.explicit_conflicts()
        edges |= prio
        for rel in self.b.spec.get("relations", []):
            if rel[0] == "before":
                a = self.d.resolve(rel[1]) if rel[1] not in self.bodies else rel[1]
                bb = self.d.resolve(rel[2]) if rel[2] not in self.bodies else rel[2]
                for ta in self.transactions_for(a):
                    for tb in self.transactions_for(bb):
                        edges.add((ta, tb))
        for name, bi in self.bodies.items():
            if bi.parent is not None:
                for ta in self.transactions_for(bi.parent.name):
                    for tb in self.transactions_for(name):
                        edges.add((ta, tb))
        for c in self.d.conds:
            if c.spec.get("priority"):
                names = [n for n, bi in self.bodies.items() if bi.branch_of is not None and bi.branch_of[0] is c]
                names.sort(key=lambda n: self.bodies[n].branch_of[1])
                for x, y in zip(names, names[1:]):
                    edges.add((x, y))
        # self loops from lifting (same transaction on both sides) are ignored by a topological sort? no: a self loop is a cycle
        g = {}
        for a, bb in edges:
            g.setdefault(a, set()).add(bb)
        color = {}

        def dfs(u):
            color[u] = 1
            for v in g.get(u, ()):
                if color.get(v) == 1:
                    return True
                if v not in color and dfs(v):
                    return True
            color[u] = 2
            return False

        return any(u not in color and dfs(u) for u in list(g))

    def single_caller_violation(self):
        for mname in self.methods:
            if self.spec(mname).get("single_caller") and len(self.sites_by_target.get(mname, [])) > 1:
                return True
        return False
