"""Curated and seeded-random DesignSpecs (DESIGN.md section 5)."""

import copy
import random


def M(name, body=(), iw=2, ow=2, **kw):
    d = {"k": "method", "name": name, "iw": iw, "ow": ow, "ready": "free", "body": list(body)}
    d.update(kw)
    return d


def T(name, body=(), **kw):
    d = {"k": "trans", "name": name, "ready": "free", "body": list(body)}
    d.update(kw)
    return d


def call(m, en=False, arg="free"):
    return {"k": "call", "m": m, "en": en, "arg": arg}


def If(*branches, els=None):
    return {"k": "if", "branches": [list(b) for b in branches], "else": None if els is None else list(els)}


def Sw(w, cases, default=None):
    return {"k": "switch", "w": w, "cases": [[p, list(b)] for p, b in cases], "default": None if default is None else list(default)}


def Fsm(*states):
    return {"k": "fsm", "states": [list(s) for s in states]}


def wit(dom):
    return {"k": "wit", "dom": dom}


def alias(name, of, via="provide"):
    return {"k": "alias", "name": name, "of": of, "via": via}


def cond(branches, default=None, nonblocking=False, priority=False):
    return {"k": "cond", "branches": [list(b) for b in branches], "default": None if default is None else list(default),
            "nonblocking": nonblocking, "priority": priority}


ALLW = [wit("comb"), wit("av_comb"), wit("top_comb"), wit("sync")]


def curated():
    """name -> spec; every shape named in the property statements appears at least once."""
    D = {}
    D["two_callers"] = {"items": [M("M0"), T("T0", [call("M0")]), T("T1", [call("M0")])]}
    D["if_else_same_method"] = {"items": [M("M0"), T("T0", [If([call("M0")], els=[call("M0")])]), T("T1", [call("M0", en=True)])]}
    D["elif_chain"] = {"items": [M("M0"), M("M1", iw=0), T("T0", [If([call("M0")], [call("M1")], [call("M0")], els=[call("M1"), wit("comb")])])]}
    D["switch_calls"] = {"items": [M("M0"), T("T0", [Sw(2, [("00", [call("M0")]), ("1-", [call("M0"), wit("comb")])], default=[call("M0"), wit("av_comb")])]), T("T1", [call("M0")])]}
    D["fsm_calls"] = {"items": [M("M0"), M("M1", ow=0), T("T0", [Fsm([call("M0"), wit("comb")], [call("M0"), call("M1")], [wit("av_comb"), call("M1")])]), T("T1", [call("M1")])]}
    D["diamond"] = {"items": [M("M0"), M("A", [call("M0")], iw=0, ow=0), M("B", [call("M0")], iw=0, ow=0),
                              T("T0", [If([call("A")], els=[call("B")])]), T("T1", [call("B", en=True)])]}
    D["nonexclusive_ancestor"] = {"items": [M("M0", iw=0), M("N", [call("M0")], iw=0, ow=1, nonexclusive=True),
                                            T("T0", [call("N")]), T("T1", [call("N"), wit("comb")]), T("T2", [call("M0")])]}
    D["nonexclusive_combiners"] = {"items": [M("NO", iw=2, ow=2, nonexclusive=True, combiner="or"), M("NC", iw=2, ow=0, nonexclusive=True, combiner="count"),
                                             T("T0", [call("NO"), call("NC")]), T("T1", [call("NO", en=True), call("NC")]), T("T2", [If([call("NO")], els=[call("NC")])])]}
    D["disabled_calls"] = {"items": [M("M0"), M("M1"), T("T0", [call("M0", en=True), call("M1", en=True)]), T("T1", [call("M1", en=True)])]}
    D["chain3"] = {"items": [M("C", iw=2, ow=2), M("B", [call("C")], iw=0, ow=2), M("A", [If([call("B")])], iw=1, ow=0), T("T0", [call("A")]), T("T1", [call("B")])]}
    D["validators"] = {"items": [M("V", validate=True), M("W", [call("V")], iw=0, ow=0), T("T0", [call("V", en=True)]), T("T1", [If([call("W")])])]}
    D["validator_nonexclusive"] = {"items": [M("V", iw=2, ow=0, validate=True, nonexclusive=True, combiner="or"), T("T0", [call("V")]), T("T1", [call("V", en=True)])]}
    D["aliases"] = {"items": [M("M0"), alias("P0", "M0"), alias("P1", "P0"), alias("Q", "M0", via="methods"),
                              T("T0", [call("P1")]), T("T1", [If([call("Q")], els=[call("P0")])])]}
    D["nested_bodies"] = {"items": [M("M0"), T("T0", [wit("comb"), If([{"k": "trans", "name": "TN", "ready": "free", "body": [call("M0"), wit("comb"), wit("av_comb")]}]),
                                                      {"k": "method", "name": "MN", "iw": 1, "ow": 1, "ready": "free", "body": [wit("comb"), wit("sync")]}]),
                                    T("T1", [call("MN")])]}
    D["nested_two_deep"] = {"items": [M("M0", iw=0, ow=0), T("T0", [If([{"k": "trans", "name": "TA", "ready": "free", "body": [
        Sw(1, [("1", [{"k": "trans", "name": "TB", "ready": "free", "body": [call("M0")] + ALLW}])]), wit("comb")]}], els=[wit("comb")])])]}
    # a nested transaction is not adjacent to its parent's conflicts in the conflict graph (it is kept from running by
    # its ready dependency on the parent), but its own calls conflict like anybody else's
    D["nested_parent_conflict"] = {"items": [M("M0"), M("M1", iw=0), T("T0", [call("M0")]),
                                             T("T1", [call("M0"), {"k": "trans", "name": "TN", "ready": "free", "body": [call("M1"), wit("comb")]}])]}
    D["nested_child_conflict"] = {"items": [M("M0"), T("T0", [call("M0")]),
                                            T("T1", [wit("comb"), {"k": "trans", "name": "TN", "ready": "free", "body": [call("M0")]}])]}
    D["witness_everywhere"] = {"items": [M("M0", ALLW + [If(ALLW, els=[Sw(2, [("01", ALLW)], default=ALLW)])], iw=1, ow=0),
                                         T("T0", ALLW + [call("M0"), Fsm(ALLW, [If(ALLW)])])]}
    D["conflict_tt"] = {"items": [T("T0", [wit("comb")]), T("T1", [wit("comb")]), T("T2")], "relations": [["conflict", "T0", "T1", "U"], ["conflict", "T2", "T1", "L"]]}
    D["conflict_mm"] = {"items": [M("A", iw=0), M("B", iw=0), M("C", [call("B")], iw=0, ow=0), T("T0", [call("A")]), T("T1", [call("C")]), T("T2", [call("B", en=True)])],
                        "relations": [["conflict", "A", "B", "R"]]}
    D["conflict_tm"] = {"items": [M("A", iw=0), T("T0"), T("T1", [call("A")])], "relations": [["conflict", "T0", "A", "L"]]}
    D["conflict_exclusive_branches"] = {"items": [M("A", iw=0), M("B", iw=0), T("T0", [If([call("A")], els=[call("B")])]), T("T1", [call("B")])],
                                        "relations": [["conflict", "A", "B", "U"]]}
    D["conflict_same_transaction"] = {"items": [M("A", iw=0), M("B", iw=0), T("T0", [call("A"), call("B", en=True)]), T("T1", [call("A")])],
                                      "relations": [["conflict", "A", "B", "U"]]}
    D["conflict_same_transaction_exclusive"] = {"items": [M("A", iw=0), M("B", iw=0), T("T0", [If([call("A")], els=[call("B")])])],
                                                "relations": [["conflict", "A", "B", "U"]]}
    D["priority_chain"] = {"items": [T("T0"), T("T1"), T("T2"), T("T3")],
                           "relations": [["conflict", "T1", "T0", "L"], ["conflict", "T2", "T1", "L"], ["conflict", "T3", "T2", "R"], ["conflict", "T0", "T3", "U"]]}
    D["priority_triangle"] = {"items": [M("A", iw=0), M("B", iw=0), T("T0", [call("A")]), T("T1", [call("B")]), T("T2", [call("A", en=True)])],
                              "relations": [["conflict", "B", "A", "L"], ["before", "T0", "T2", False]]}
    D["schedule_before"] = {"items": [M("A", iw=0), M("B", iw=0, ready=["run_or", "A"]), T("T0", [call("A")]), T("T1", [call("B")])],
                            "relations": [["before", "A", "B", False]]}
    D["schedule_before_conflicting"] = {"items": [M("A", iw=0), M("B", iw=0, ready=["run_or", "A"]), M("C", iw=0, ow=0), T("T0", [call("A"), call("C", en=True)]), T("T1", [call("B"), call("C")])],
                                        "relations": [["before", "A", "B", False]]}
    D["ready_dependent"] = {"items": [T("T0"), T("T1", [wit("comb")])], "relations": [["before", "T0", "T1", True]]}
    D["ready_dependent_two_sources"] = {"items": [T("T0"), T("T1"), T("T2", [wit("comb")])], "relations": [["before", "T0", "T2", True], ["before", "T1", "T2", True]]}
    D["ready_dependent_nested_plus_explicit"] = {"items": [T("TG"), T("T0", [wit("comb"), {"k": "trans", "name": "TN", "ready": "free", "body": [wit("comb")]}])],
                                                 "relations": [["before", "TG", "TN", True]]}
    D["ready_dependent_method_two_sources"] = {"items": [M("A", iw=0), M("B", iw=0), M("C", iw=0), T("T0", [call("A")]), T("T1", [call("B")]), T("T2", [call("C")])],
                                               "relations": [["before", "A", "C", True], ["before", "B", "C", True]]}
    D["ready_dependent_chain"] = {"items": [T("T0"), T("T1"), T("T2"), T("T3")], "relations": [["before", "T0", "T1", True], ["before", "T1", "T2", True], ["before", "T0", "T3", True], ["before", "T2", "T3", True]]}
    D["method_in_if"] = {"items": [T("T0", [If([{"k": "method", "name": "MN", "iw": 0, "ow": 1, "ready": "free", "body": [wit("comb")]}])]), T("T1", [call("MN")])]}
    # callers of one exclusive method in different modules: alternatives of control structures of *different* modules are not exclusive
    # (the callers sit at the same position of their modules' control trees, so only the module id tells the paths apart)
    D["cross_module_if_else"] = {"items": [T("T0", [If([call("M0")])]), T("T1", [If([wit("comb")], els=[call("M0")])], mod=1), M("M0")]}
    D["cross_module_switch_fsm"] = {"items": [T("T0", [Sw(1, [("0", [call("M0")]), ("1", [wit("comb")])])]), T("T1", [Fsm([wit("comb")], [call("M0")])], mod=1),
                                             T("T2", [Sw(1, [("0", [wit("comb")]), ("1", [call("M0")])])], mod=1), T("T3", [Sw(1, [("0", [wit("comb")]), ("1", [call("M0")])])]), M("M0", mod=1)]}
    D["cross_module_via_methods"] = {"items": [M("A", [If([call("M0")])], iw=0, ow=0), M("B", [If([], els=[call("M0")])], iw=0, ow=0, mod=1), T("T0", [call("A")]), T("T1", [call("B")], mod=1), M("M0")]}
    D["cross_module_conflict_relation"] = {"items": [T("T0", [If([wit("comb")])]), T("T1", [If([], els=[wit("comb")])], mod=1)], "relations": [["conflict", "T0", "T1", "L"]]}
    D["three_way"] = {"items": [M("A"), M("B"), M("C"), T("T0", [call("A"), call("B")]), T("T1", [call("B"), call("C")]), T("T2", [call("C"), call("A")])]}
    D["rets_as_args"] = {"items": [M("A", iw=2, ow=2, out="inc"), M("B", iw=2, ow=2), T("T0", [call("A"), call("B", arg=["ret", 0])])]}
    D["uncalled"] = {"items": [M("A"), M("U", [call("A")], iw=0, ow=0), T("T0", [call("A")])]}
    # --- shapes added after the second seeded-change campaign (DESIGN.md 12.5) ---------------------------------------
    # every kind of statement in every alternative of an If/Elif/Elif/Else chain (overlapping conditions: all are free)
    D["elif_witness_everywhere"] = {"items": [M("M0", iw=1), M("M1", iw=0, ow=0), M("M2", [If(ALLW, ALLW + [call("M1")], els=ALLW)], iw=0, ow=1),
                                              T("T0", [If(ALLW + [call("M0")], ALLW + [call("M0")], ALLW + [call("M2")], els=ALLW + [call("M0", en=True)])])]}
    # two add_conflict relations that lift to the same ordered pair of transactions, only the second with a priority;
    # both definition orders of the transactions (the default order is "fewer conflicts, then definition order")
    for pr in ("L", "R"):
        for first in ("UA", "UB"):
            ua, ub = T("UA", [call("a_cfg"), call("a_data")]), T("UB", [call("b_cfg"), call("b_data")])
            D[f"two_relations_same_pair_{pr}_{first}"] = {
                "items": [M("a_cfg", iw=0, ow=0), M("b_cfg", iw=0, ow=0), M("a_data", iw=0), M("b_data", iw=0)] + ([ua, ub] if first == "UA" else [ub, ua]),
                "relations": [["conflict", "a_cfg", "b_cfg", "U"], ["conflict", "a_data", "b_data", pr]]}
    # one body carrying several relations, the later ones naming bodies defined earlier (methods, then transactions)
    D["several_relations_one_method"] = {"items": [M("inc", iw=0), M("dec", iw=0), M("clear", iw=0, ow=0), T("T0", [call("inc")]), T("T1", [call("dec")]), T("T2", [call("clear")])],
                                         "relations": [["conflict", "clear", "dec", "U"], ["conflict", "clear", "inc", "U"]]}
    D["several_relations_one_transaction"] = {"items": [M("A", iw=0), T("T0", [call("A")]), T("T1"), T("T2"), T("T3")],
                                              "relations": [["conflict", "T3", "T2", "U"], ["conflict", "T3", "A", "L"], ["conflict", "T3", "T1", "R"]]}
    # add_conflict(a, b) where one caller reaches both ends in exclusive alternatives and another caller reaches only the
    # (nonexclusive) second end: the two callers still conflict; both declaration directions, with and without priority
    for i, (x, y, pr) in enumerate([("A", "B", "U"), ("B", "A", "U"), ("A", "B", "L"), ("B", "A", "L")]):
        D[f"conflict_one_caller_reaches_both_ends_{i}"] = {"items": [M("A", iw=0), M("B", iw=0, ow=0, nonexclusive=True), T("T0", [If([call("A")], els=[call("B")])]), T("T1", [call("B")]),
                                                                     T("T2", [call("A", en=True)])], "relations": [["conflict", x, y, pr]]}
    # an FSM nested in a state of another FSM, followed by further outer states (with every kind of statement, calls and a nested body)
    D["nested_fsm"] = {"items": [M("M0", iw=1), M("M1", iw=0, ow=0),
                                 T("T0", [Fsm([Fsm(ALLW + [call("M0")], ALLW)] + ALLW, ALLW + [call("M0")], ALLW + [call("M1")])]),
                                 M("MF", [Fsm([Fsm(ALLW, ALLW + [call("M1")]), wit("av_comb")], ALLW)], iw=0, ow=1), T("T1", [call("MF")])]}
    D["nested_fsm_in_switch_with_body"] = {"items": [M("M0", iw=0), T("T0", [Sw(1, [("0", [Fsm([Fsm([wit("comb")], [wit("av_comb")])], [{"k": "trans", "name": "TN", "ready": "free", "body": [call("M0")] + ALLW}])]), ("1", ALLW)])])]}
    # a nonexclusive method reached at different call depths (directly, and through an exclusive wrapper): no conflict
    D["nonexclusive_ancestor_unequal_depth"] = {"items": [M("leaf", iw=0), M("N", [call("leaf")], iw=0, ow=0, nonexclusive=True), M("W", [call("N")], iw=0, ow=1),
                                                          T("T0", [call("W")]), T("T1", [call("N")]), T("T2", [If([call("W", en=True)])])]}
    D["nonexclusive_ancestor_unequal_depth_3"] = {"items": [M("leaf", iw=0), M("N", [call("leaf")], iw=0, ow=0, nonexclusive=True), M("W", [call("N")], iw=0, ow=0, nonexclusive=True),
                                                            M("X", [call("W")], iw=0, ow=0), T("T0", [call("X")]), T("T1", [call("N")]), T("T2", [call("W")])]}
    # a validated method below a method that the transaction reaches through two exclusive call paths
    D["validator_below_repeated_method"] = {"items": [M("V", validate=True), M("mid", [call("V")], iw=0, ow=0), T("T0", [If([call("mid")], els=[call("mid")])]), T("T1", [call("V", en=True)])]}
    D["validator_below_two_routes"] = {"items": [M("V", validate=True), M("mid", [call("V")], iw=0, ow=0), M("A", [call("mid")], iw=0, ow=0), M("B", [call("mid")], iw=1, ow=0),
                                                 T("T0", [Sw(2, [("00", [call("A")]), ("01", [call("B")]), ("1-", [call("mid")])])])]}
    # a schedule_before chain (Forwarder-style: the reader's readiness is the writer's run) that leaves a conflict
    # component and re-enters it: head and tail of the chain share an exclusive method
    for variant in ("head_more_conflicts", "tail_defined_first"):
        ms = [M("W1", iw=0, ow=0), M("R1", iw=0, ow=0, ready=["run_or", "W1"]), M("W2", iw=0, ow=0), M("R2", iw=0, ow=0, ready=["run_or", "W2"]),
              M("PORT", iw=0, ow=0), M("AUX", iw=0, ow=0)]
        produce = T("produce", [call("PORT"), call("W1")] + ([call("AUX")] if variant == "head_more_conflicts" else []))
        relay = T("relay", [call("R1"), call("W2")])
        consume = T("consume", [call("PORT"), call("R2")])
        other = T("other", [call("AUX")])
        ts = [produce, relay, consume, other] if variant == "head_more_conflicts" else [consume, relay, produce, other]
        D[f"before_chain_reenters_component_{variant}"] = {"items": ms + ts, "relations": [["before", "W1", "R1", False], ["before", "W2", "R2", False]]}
    return D


def cond_designs():
    D = {}
    for nb in (False, True):
        for pr in (False, True):
            for df in (False, True):
                for inm in (False, True):
                    body = [wit("comb"), cond([[call("A"), wit("comb")], [call("B")]], default=[call("C")] if df else None, nonblocking=nb, priority=pr)]
                    items = [M("A", iw=0), M("B", iw=0, ow=0), M("C", iw=0, ow=0)]
                    if inm:
                        items += [M("O", body, iw=0, ow=0), T("T0", [call("O")])]
                    else:
                        items += [T("T0", body)]
                    D[f"cond_nb{int(nb)}_pr{int(pr)}_df{int(df)}_m{int(inm)}"] = {"items": items}
    D["cond_shared_callee"] = {"items": [M("A", iw=0), M("B", iw=0, ow=0), T("T0", [cond([[call("A")], [call("A"), call("B")], [call("B")]], priority=True)]), T("T1", [call("A")])]}
    D["cond_two_blocks"] = {"items": [M("A", iw=0), M("B", iw=0, ow=0), T("T0", [cond([[call("A")]], nonblocking=True), cond([[call("B")], []], default=[wit("comb")])])]}
    D["cond_nested"] = {"items": [M("A", iw=0), M("B", iw=0, ow=0), M("C", iw=0, ow=0), T("T0", [cond([[call("A"), cond([[call("B")]], default=[call("C")])], [call("C")]])])]}
    # condition() in a method reached through a chain of calls, with the guarded call above the direct caller
    D["cond_in_method_depth2_guarded"] = {"items": [M("A", iw=0), M("B", iw=0, ow=0), M("inner", [cond([[call("A")], [call("B")]], nonblocking=True)], iw=0, ow=0),
                                                     M("outer", [call("inner")], iw=0, ow=0), T("T0", [wit("comb"), If([call("outer")])])]}
    D["cond_in_method_depth3_enable"] = {"items": [M("A", iw=0), M("inner", [cond([[call("A")]], default=[wit("comb")])], iw=0, ow=0), M("mid", [call("inner")], iw=0, ow=0),
                                                    M("outer", [call("mid")], iw=0, ow=0), T("T0", [call("outer", en=True)])]}
    D["cond_in_method_depth2_switch"] = {"items": [M("A", iw=0), M("B", iw=0, ow=0), M("inner", [cond([[call("A")], [call("B")]], priority=True)], iw=0, ow=0),
                                                    M("outer", [call("inner")], iw=0, ow=0), T("T0", [Sw(1, [("1", [call("outer")])], default=[wit("comb")])])]}
    D["cond_in_if"] = {"items": [M("A", iw=0), M("B", iw=0, ow=0), M("C", iw=0, ow=0), T("T0", [If([cond([[call("A")], [call("B")]], nonblocking=True)], els=[call("C")])])]}
    D["cond_calls_in_if"] = {"items": [M("A", iw=0), M("B", iw=0, ow=0), T("T0", [cond([[If([call("A")], els=[call("B")])], [call("B", en=True)]], priority=True)])]}
    return D


# ------------------------------------------------------------------------------------------------
def _matches(pat, v):
    return all(ch == "-" or int(ch) == ((v >> (len(pat) - 1 - i)) & 1) for i, ch in enumerate(pat))


def reachable_patterns(pats):
    """drop switch patterns that are completely shadowed by earlier ones (an unreachable case would make the
    spec-level 'can be active together' differ from the library's syntactic notion)"""
    out = []
    for p in pats:
        if any(_matches(p, v) and not any(_matches(q, v) for q in out) for v in range(1 << len(p))):
            out.append(p)
    return out


def random_spec(rng, max_t=3, max_m=3, allow_relations=True, allow_nested=True):
    nm = rng.randint(1, max_m)
    nt = rng.randint(1, max_t)
    mnames = [f"M{i}" for i in range(nm)]
    methods = []
    for i, n in enumerate(mnames):
        iw = rng.choice([0, 1, 2])
        ow = rng.choice([0, 1, 2])
        nonex = rng.random() < 0.25
        ms = M(n, [], iw=iw, ow=ow)
        if nonex:
            ms["nonexclusive"] = True
            if iw:
                ms["combiner"] = rng.choice(["or", "count"])
        if iw == 2 and rng.random() < 0.3:
            ms["validate"] = True
        if rng.random() < 0.2:
            ms["ready"] = "one"
        if ow and iw and rng.random() < 0.3:
            ms["out"] = "inc"
        methods.append(ms)

    def rblock(callable_ms, depth, budget):
        out = []
        n = rng.randint(0, 2) if depth else rng.randint(1, 3)
        for _ in range(n):
            r = rng.random()
            if r < 0.5 and callable_ms:
                out.append(call(rng.choice(callable_ms), en=rng.random() < 0.3, arg=rng.choice(["free", "free", "const"])))
            elif r < 0.62:
                out.append(wit(rng.choice(["comb", "av_comb", "top_comb", "sync"])))
            elif depth < 2 and r < 0.8:
                nb = rng.randint(1, 3)
                out.append(If(*[rblock(callable_ms, depth + 1, budget) for _ in range(nb)], els=rblock(callable_ms, depth + 1, budget) if rng.random() < 0.6 else None))
            elif depth < 2 and r < 0.9:
                pats = reachable_patterns(rng.sample(["00", "01", "1-", "-1", "11"], rng.randint(1, 3)))
                uncovered = any(not any(_matches(q, v) for q in pats) for v in range(4))
                dflt = rblock(callable_ms, depth + 1, budget) if rng.random() < 0.5 else None
                out.append(Sw(2, [(p, rblock(callable_ms, depth + 1, budget)) for p in pats], default=dflt if uncovered else None))
            elif depth < 2:
                out.append(Fsm(*[rblock(callable_ms, depth + 1, budget) for _ in range(rng.randint(2, 3))]))
        return out

    # method i may call only methods with larger index (no recursion)
    for i, ms in enumerate(methods):
        if rng.random() < 0.5:
            ms["body"] = rblock(mnames[i + 1 :], 1, 2)
    items = list(methods)
    al = []
    if rng.random() < 0.3:
        al.append(alias("P0", rng.choice(mnames), via=rng.choice(["provide", "methods"])))
    items += al
    callable_all = mnames + [a["name"] for a in al]
    tnames = []
    for i in range(nt):
        tb = rblock(callable_all, 0, 3)
        t = T(f"T{i}", tb)
        if rng.random() < 0.2:
            t["ready"] = "one"
        if allow_nested and rng.random() < 0.2:
            t["body"].append({"k": "trans", "name": f"TN{i}", "ready": "free", "body": rblock(callable_all, 1, 2)})
        if rng.random() < 0.3:
            t["mod"] = 1
        items.append(t)
        tnames.append(f"T{i}")
    rels = []
    if allow_relations:
        objs = tnames + mnames
        for _ in range(rng.randint(0, 2)):
            a, b = rng.sample(objs, 2) if len(objs) >= 2 else (None, None)
            if a is None:
                break
            rels.append(["conflict", a, b, rng.choice(["U", "L", "R"])])
        # schedule_before relations (source defined before target), some of them ready-dependent
        order = mnames + tnames
        for _ in range(rng.randint(0, 2)):
            if len(order) >= 2 and rng.random() < 0.5:
                i, j = sorted(rng.sample(range(len(order)), 2))
                rels.append(["before", order[i], order[j], allow_nested and rng.random() < 0.6])
    return {"items": items, "relations": rels}


def with_scheduler(spec, sched):
    s = copy.deepcopy(spec)
    s["scheduler"] = sched
    return s


def rr_designs():
    D = {}
    for k in range(1, 6):
        D[f"rr_{k}_share_method"] = {"items": [M("M0")] + [T(f"T{i}", [call("M0", en=(i % 2 == 1))]) for i in range(k)]}
    D["rr_two_components"] = {"items": [M("A", iw=0), M("B", iw=0), T("T0", [call("A")]), T("T1", [call("A")]), T("T2", [call("B")]), T("T3", [call("B")]), T("T4", [wit("comb")])]}
    D["rr_chain"] = {"items": [M("A", iw=0), M("B", iw=0), T("T0", [call("A")]), T("T1", [call("A"), call("B")]), T("T2", [call("B")])]}
    D["rr_explicit"] = {"items": [M("A", iw=0), T("T0"), T("T1", [call("A")]), T("T2", [If([call("A")])]), T("T3")], "relations": [["conflict", "T0", "T1", "L"], ["conflict", "T3", "T0", "U"]]}
    # several conflict-free transactions (each is a component of its own) next to a real component
    D["rr_singletons"] = {"items": [M("A", iw=0), M("B", iw=0), T("T0", [call("A")]), T("T1", [call("A", en=True)]), T("T2", [wit("comb")]), T("T3", [wit("comb")]), T("T4", [call("B")])]}
    D["rr_validators"] = {"items": [M("V", validate=True), T("T0", [call("V")]), T("T1", [call("V", en=True)]), T("T2", [If([call("V")])])]}
    return D


# ------------------------------------------------------------------------------------------------
# single-defect mutants for C11 (and their accepted neighbours)
def c11_cases():
    """name -> (spec, expected: 'reject' | 'accept', defect kind)"""
    C = {}
    base_m = lambda **kw: M("M0", **kw)
    # double call of an exclusive method on non-exclusive paths, at call depth 1, 2, 3
    C["double_call_d1"] = ({"items": [base_m(), T("T0", [call("M0"), call("M0")])]}, "reject", "double call")
    C["double_call_d1_parallel_ifs"] = ({"items": [base_m(), T("T0", [If([call("M0")]), If([call("M0")])])]}, "reject", "double call")
    C["double_call_d1_enable"] = ({"items": [base_m(), T("T0", [call("M0", en=True), call("M0", en=True)])]}, "reject", "double call")
    C["double_call_d2"] = ({"items": [base_m(), M("A", [call("M0")], iw=0, ow=0), T("T0", [call("A"), call("M0")])]}, "reject", "double call")
    C["double_call_d3"] = ({"items": [base_m(), M("B", [call("M0")], iw=0, ow=0), M("A", [call("B")], iw=0, ow=0), M("C", [call("M0")], iw=0, ow=0), T("T0", [call("A"), call("C")])]}, "reject", "double call")
    C["double_call_in_method_root"] = ({"items": [base_m(), M("A", [call("M0"), call("M0")], iw=0, ow=0), T("T0", [wit("comb")])]}, "reject", "double call")
    C["double_call_nested_if_else_then_again"] = ({"items": [base_m(), T("T0", [If([call("M0")], els=[call("M0")]), call("M0", en=True)])]}, "reject", "double call")
    C["double_call_via_nonexclusive_with_exclusive_tree"] = ({"items": [base_m(), M("N", [call("M0")], iw=0, ow=0, nonexclusive=True), T("T0", [call("N"), call("N")])]}, "reject", "double call")
    # the doubly reached method sits below a method that is itself called twice on exclusive paths (a call-tree walk that
    # visits the subtree of a method only once misses the second call path)
    C["double_call_below_repeated_method_direct_second"] = ({"items": [base_m(), M("A", [call("M0")], iw=0, ow=0), T("T0", [If([call("A")], els=[call("A"), call("M0")])])]}, "reject", "double call")
    C["double_call_below_repeated_method_direct_first"] = ({"items": [base_m(), M("A", [call("M0")], iw=0, ow=0), T("T0", [If([call("A"), call("M0")], els=[call("A")])])]}, "reject", "double call")
    C["double_call_below_repeated_method_d3"] = ({"items": [base_m(), M("B", [call("M0")], iw=0, ow=0), M("A", [call("B")], iw=0, ow=0),
                                                            T("T0", [Sw(1, [("0", [call("A")]), ("1", [call("A"), call("B")])])])]}, "reject", "double call")
    C["ok_repeated_method_exclusive_everywhere"] = ({"items": [base_m(), M("A", [call("M0")], iw=0, ow=0), T("T0", [If([call("A")], [call("M0")], els=[call("A")])])]}, "accept", None)
    # accepted neighbours
    C["ok_if_else"] = ({"items": [base_m(), T("T0", [If([call("M0")], els=[call("M0")])])]}, "accept", None)
    C["ok_elif_chain"] = ({"items": [base_m(), T("T0", [If([call("M0")], [call("M0")], [call("M0")], els=[call("M0")])])]}, "accept", None)
    C["ok_switch"] = ({"items": [base_m(), T("T0", [Sw(2, [("00", [call("M0")]), ("01", [call("M0")]), ("1-", [call("M0")])], default=[call("M0")])])]}, "accept", None)
    C["ok_fsm"] = ({"items": [base_m(), T("T0", [Fsm([call("M0")], [call("M0")], [call("M0")])])]}, "accept", None)
    C["ok_d2_if_else"] = ({"items": [base_m(), M("A", [call("M0")], iw=0, ow=0), T("T0", [If([call("A")], els=[call("M0")])])]}, "accept", None)
    C["ok_d3_switch"] = ({"items": [base_m(), M("B", [call("M0")], iw=0, ow=0), M("A", [call("B")], iw=0, ow=0), M("C", [call("M0")], iw=0, ow=0),
                                    T("T0", [Sw(1, [("0", [call("A")]), ("1", [call("C")])])])]}, "accept", None)
    C["ok_nonexclusive_twice_no_exclusive_in_tree"] = ({"items": [M("N", iw=0, ow=1, nonexclusive=True), M("N2", [call("N")], iw=0, ow=0, nonexclusive=True),
                                                                  T("T0", [call("N"), call("N"), call("N2"), call("N2", en=True)])]}, "accept", None)
    C["ok_nested_if_inside_else"] = ({"items": [base_m(), T("T0", [If([call("M0")], els=[If([call("M0")], els=[call("M0")])])])]}, "accept", None)
    # recursion through 1, 2, 3 methods
    C["recursion_1"] = ({"items": [M("A", [call("A")], iw=0, ow=0), T("T0", [call("A")])]}, "reject", "recursion")
    C["recursion_2"] = ({"items": [M("A", [call("B")], iw=0, ow=0), M("B", [If([call("A")])], iw=0, ow=0), T("T0", [call("A")])]}, "reject", "recursion")
    C["recursion_3"] = ({"items": [M("A", [call("B")], iw=0, ow=0), M("B", [call("C")], iw=0, ow=0), M("C", [call("A", en=True)], iw=0, ow=0), T("T0", [call("A")])]}, "reject", "recursion")
    C["recursion_uncalled"] = ({"items": [M("A", [call("A")], iw=0, ow=0), T("T0", [wit("comb")])]}, "reject", "recursion")
    C["ok_chain_no_recursion"] = ({"items": [M("C", iw=0, ow=0), M("B", [call("C")], iw=0, ow=0), M("A", [call("B")], iw=0, ow=0), T("T0", [call("A")])]}, "accept", None)
    # cyclic priorities of length 2 and 3
    C["priority_cycle_2"] = ({"items": [T("T0"), T("T1")], "relations": [["conflict", "T0", "T1", "L"], ["conflict", "T1", "T0", "L"]]}, "reject", "priority cycle")
    C["priority_cycle_2_lr"] = ({"items": [T("T0"), T("T1")], "relations": [["conflict", "T0", "T1", "L"], ["conflict", "T0", "T1", "R"]]}, "reject", "priority cycle")
    C["priority_cycle_3"] = ({"items": [T("T0"), T("T1"), T("T2")], "relations": [["conflict", "T0", "T1", "L"], ["conflict", "T1", "T2", "L"], ["conflict", "T2", "T0", "L"]]}, "reject", "priority cycle")
    C["priority_cycle_methods"] = ({"items": [M("A", iw=0), M("B", iw=0), T("T0", [call("A")]), T("T1", [call("B")])], "relations": [["conflict", "A", "B", "L"], ["conflict", "T1", "T0", "L"]]}, "reject", "priority cycle")
    C["ok_priority_chain_3"] = ({"items": [T("T0"), T("T1"), T("T2")], "relations": [["conflict", "T0", "T1", "L"], ["conflict", "T1", "T2", "L"], ["conflict", "T0", "T2", "L"]]}, "accept", None)
    C["ok_priority_undefined_cycle"] = ({"items": [T("T0"), T("T1"), T("T2")], "relations": [["conflict", "T0", "T1", "U"], ["conflict", "T1", "T2", "U"], ["conflict", "T2", "T0", "U"]]}, "accept", None)
    # single_caller
    C["single_caller_two_transactions"] = ({"items": [M("S", single_caller=True), T("T0", [call("S")]), T("T1", [call("S")])]}, "reject", "single_caller")
    C["single_caller_via_method_and_transaction"] = ({"items": [M("S", iw=0, single_caller=True), M("A", [call("S")], iw=0, ow=0), T("T0", [call("A")]), T("T1", [call("S")])]}, "reject", "single_caller")
    C["ok_single_caller_once"] = ({"items": [M("S", single_caller=True), T("T0", [call("S")]), T("T1", [wit("comb")])]}, "accept", None)
    # ready-dependent on a conflicting transaction
    C["ready_dep_conflict_explicit"] = ({"items": [T("T0"), T("T1")], "relations": [["before", "T0", "T1", True], ["conflict", "T0", "T1", "U"]]}, "reject", "ready dependency on conflicting")
    C["ready_dep_conflict_shared_method"] = ({"items": [M("A", iw=0), T("T0", [call("A")]), T("T1", [call("A")])], "relations": [["before", "T0", "T1", True]]}, "reject", "ready dependency on conflicting")
    C["ready_dep_nested_shares_method"] = ({"items": [M("A", iw=0), T("T0", [call("A"), {"k": "trans", "name": "TN", "ready": "free", "body": [call("A")]}])]}, "reject", "ready dependency on conflicting")
    C["ok_ready_dep_no_conflict"] = ({"items": [M("A", iw=0), M("B", iw=0), T("T0", [call("A")]), T("T1", [call("B")])], "relations": [["before", "T0", "T1", True]]}, "accept", None)
    C["ok_nested_distinct_methods"] = ({"items": [M("A", iw=0), M("B", iw=0), T("T0", [call("A"), {"k": "trans", "name": "TN", "ready": "free", "body": [call("B")]}])]}, "accept", None)
    return C
